//! Native differential tests of the environment models (run by /verif/setup.sh).
#![cfg(test)]

use std::collections::HashMap as RealMap;
use std_model::HashMap as ModelMap;

/// tiny deterministic generator
struct Lcg(u64);
impl Lcg {
    fn next(&mut self) -> u64 {
        self.0 = self.0.wrapping_mul(6364136223846793005).wrapping_add(1442695040888963407);
        self.0 >> 33
    }
}

#[test]
fn hashmap_model_agrees_with_std() {
    let mut g = Lcg(7);
    for _round in 0..200 {
        let mut real: RealMap<Vec<u8>, u32> = RealMap::new();
        let mut model: ModelMap<Vec<u8>, u32> = ModelMap::new();
        for _ in 0..40 {
            let klen = (g.next() % 20) as usize; // crosses the 16-byte fingerprint limit
            let mut k = vec![0u8; klen];
            for b in k.iter_mut() {
                *b = (g.next() % 3) as u8;
            }
            let v = g.next() as u32;
            match g.next() % 4 {
                0 | 1 => {
                    if real.len() < 16 || real.contains_key(&k) {
                        assert_eq!(real.insert(k.clone(), v), model.insert(k.clone(), v));
                    }
                }
                2 => assert_eq!(real.remove(&k), model.remove(&k)),
                _ => {
                    assert_eq!(real.get(&k), model.get(&k));
                    assert_eq!(real.contains_key(&k), model.contains_key(&k));
                }
            }
            assert_eq!(real.len(), model.len());
            let mut a: Vec<_> = real.iter().map(|(k, v)| (k.clone(), *v)).collect();
            let mut b: Vec<_> = model.iter().map(|(k, v)| (k.clone(), *v)).collect();
            a.sort();
            b.sort();
            assert_eq!(a, b);
        }
        let collected: ModelMap<Vec<u8>, u32> = real.iter().map(|(k, v)| (k.clone(), *v)).collect();
        assert!(collected == model);
    }
}

#[test]
fn string_keys_and_index() {
    let mut m: ModelMap<String, bool> = ModelMap::new();
    m.insert("10.0.0.1:6881".to_string(), true);
    m.insert("10.0.0.1:6882".to_string(), false);
    assert_eq!(m[&"10.0.0.1:6882".to_string()], false);
    assert_eq!(m.get(&"10.0.0.1:688".to_string()), None);
    *m.get_mut(&"10.0.0.1:6881".to_string()).unwrap() = false;
    assert_eq!(m.iter().filter(|(_, v)| !**v).count(), 2);
}

#[test]
fn bytesmut_model_agrees_with_bytes() {
    use model_bytes::{Buf as MBuf, BufMut as MBufMut};
    use real_bytes::{Buf as RBuf, BufMut as RBufMut};
    let mut g = Lcg(11);
    for _round in 0..200 {
        let mut real = real_bytes::BytesMut::with_capacity(64);
        let mut model = model_bytes::BytesMut::with_capacity(4096);
        for _ in 0..30 {
            match g.next() % 3 {
                0 => {
                    let n = (g.next() % 9) as usize;
                    let chunk: Vec<u8> = (0..n).map(|_| g.next() as u8).collect();
                    RBufMut::put_slice(&mut real, &chunk);
                    MBufMut::put_slice(&mut model, &chunk);
                }
                1 => {
                    let n = (g.next() % 5) as usize;
                    if n <= real.len() {
                        RBuf::advance(&mut real, n);
                        MBuf::advance(&mut model, n);
                    }
                }
                _ => {
                    assert_eq!(real.is_empty(), model.is_empty());
                }
            }
            assert_eq!(&real[..], &model[..]);
            assert_eq!(real.len(), model.len());
        }
    }
}

#[test]
#[should_panic(expected = "cannot advance past")]
fn bytesmut_model_panics_like_bytes_on_overadvance() {
    use model_bytes::Buf;
    let mut b = model_bytes::BytesMut::with_capacity(16);
    b.extend_from_slice(&[1, 2, 3]);
    b.advance(4);
}

#[test]
#[should_panic(expected = "cannot advance past")]
fn real_bytes_panics_on_overadvance() {
    use real_bytes::Buf;
    let mut b = real_bytes::BytesMut::with_capacity(16);
    b.extend_from_slice(&[1, 2, 3]);
    b.advance(4);
}

#[test]
fn mpsc_oneshot_broadcast_model_basics() {
    use tokio::model::run_ready;
    let (tx, mut rx) = tokio::sync::mpsc::channel::<u32>(2);
    assert!(run_ready(tx.send(1)).unwrap().is_ok());
    assert!(run_ready(tx.send(2)).unwrap().is_ok());
    assert!(run_ready(tx.send(3)).is_none(), "full channel: send is pending");
    assert_eq!(run_ready(rx.recv()).unwrap(), Some(1));
    assert_eq!(run_ready(rx.recv()).unwrap(), Some(2));
    assert!(run_ready(rx.recv()).is_none(), "empty channel with live sender: pending");
    drop(tx);
    assert_eq!(run_ready(rx.recv()).unwrap(), None, "all senders gone: None");

    let (otx, orx) = tokio::sync::oneshot::channel::<u8>();
    drop(otx);
    assert!(run_ready(orx).unwrap().is_err(), "dropped sender: RecvError");

    let (btx, mut brx) = tokio::sync::broadcast::channel::<u8>(4);
    let mut late = btx.subscribe();
    btx.send(9).unwrap();
    assert_eq!(run_ready(brx.recv()).unwrap(), Ok(9));
    assert_eq!(run_ready(late.recv()).unwrap(), Ok(9));
    assert!(run_ready(late.recv()).is_none());
}
