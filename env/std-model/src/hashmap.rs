//! Association list with the `HashMap` API subset rdest uses.  Unique keys, last insert wins,
//! iteration in insertion order (real `HashMap` iterates in an arbitrary order; harnesses for
//! which order matters insert in a nondeterministic order).  Equality is order-independent,
//! like the real one.
use std::borrow::Borrow;
use std::fmt;

/// Keys rdest uses are byte strings (`String` addresses, `Vec<u8>` dictionary keys).  Comparing
/// two heap strings through `memcmp` is what makes CBMC explode (13 GB for four inserts), so
/// every entry caches a fingerprint of its key -- length plus the first 16 bytes -- computed
/// once, loop-free, from the key object at hand; lookups compare fingerprints and fall back to
/// the real `==` only for keys longer than 16 bytes with equal fingerprints.  Equality
/// semantics are unchanged.
pub trait ModelKey {
    fn key_bytes(&self) -> &[u8];
}
impl ModelKey for String {
    fn key_bytes(&self) -> &[u8] {
        self.as_bytes()
    }
}
impl ModelKey for str {
    fn key_bytes(&self) -> &[u8] {
        self.as_bytes()
    }
}
impl ModelKey for Vec<u8> {
    fn key_bytes(&self) -> &[u8] {
        self.as_slice()
    }
}
impl ModelKey for [u8] {
    fn key_bytes(&self) -> &[u8] {
        self
    }
}
impl<T: ModelKey + ?Sized> ModelKey for &T {
    fn key_bytes(&self) -> &[u8] {
        (**self).key_bytes()
    }
}

#[derive(Clone, Copy, PartialEq, Eq)]
struct Fp {
    len: usize,
    a: u64,
    b: u64,
}

fn fp(bytes: &[u8]) -> Fp {
    let len = bytes.len();
    macro_rules! pack {
        ($($i:literal)*) => {{
            let mut v: u64 = 0;
            $( if len > $i { v |= (bytes[$i] as u64) << (8 * ($i % 8)); } )*
            v
        }};
    }
    Fp {
        len,
        a: pack!(0 1 2 3 4 5 6 7),
        b: pack!(8 9 10 11 12 13 14 15),
    }
}

pub const MODEL_CAPACITY: usize = 16;

/// Fixed-capacity association list: `slots[..n]` are the entries in insertion order.  A plain
/// array plus an explicit counter (instead of `Vec`s) keeps every loop bound and every index a
/// constant for CBMC's constant propagation; `Vec::len()` is not, and each lookup then unrolls
/// to the harness' unwind bound.  More than 16 entries is reported as a failed check.
/// Values are boxed so that moving entries moves two words.
pub struct HashMap<K, V> {
    slots: [Option<(K, Box<V>)>; MODEL_CAPACITY],
    fps: [Fp; MODEL_CAPACITY],
    n: usize,
}

const NO_FP: Fp = Fp { len: usize::MAX, a: 0, b: 0 };

impl<K, V> Default for HashMap<K, V> {
    fn default() -> Self {
        HashMap {
            slots: [
                None, None, None, None, None, None, None, None, None, None, None, None, None, None, None, None,
            ],
            fps: [NO_FP; MODEL_CAPACITY],
            n: 0,
        }
    }
}

impl<K: Clone, V: Clone> Clone for HashMap<K, V> {
    fn clone(&self) -> Self {
        let mut m: HashMap<K, V> = Default::default();
        let mut i = 0;
        while i < self.n {
            m.slots[i] = self.slots[i].clone();
            m.fps[i] = self.fps[i];
            i += 1;
        }
        m.n = self.n;
        m
    }
}

impl<K, V> HashMap<K, V> {
    fn entry(&self, i: usize) -> &(K, Box<V>) {
        match &self.slots[i] {
            Some(e) => e,
            None => panic!("std-model HashMap: empty slot below n"),
        }
    }
    fn entry_mut(&mut self, i: usize) -> &mut (K, Box<V>) {
        match &mut self.slots[i] {
            Some(e) => e,
            None => panic!("std-model HashMap: empty slot below n"),
        }
    }
}

impl<K: Eq + ModelKey, V> HashMap<K, V> {
    pub fn new() -> Self {
        Default::default()
    }

    pub fn len(&self) -> usize {
        self.n
    }

    pub fn is_empty(&self) -> bool {
        self.n == 0
    }

    /// Index of the entry whose key equals `k`.
    fn find<Q: ?Sized + Eq + ModelKey>(&self, k: &Q) -> Option<usize>
    where
        K: Borrow<Q>,
    {
        let want = fp(k.key_bytes());
        let mut i = 0;
        while i < self.n {
            if self.fps[i] == want && (want.len <= 16 || self.entry(i).0.borrow() == k) {
                return Some(i);
            }
            i += 1;
        }
        None
    }

    pub fn insert(&mut self, k: K, v: V) -> Option<V> {
        match self.find(&k) {
            Some(i) => Some(std::mem::replace(&mut *self.entry_mut(i).1, v)),
            None => {
                assert!(self.n < MODEL_CAPACITY, "std-model HashMap: more than 16 entries");
                let i = self.n;
                self.fps[i] = fp(k.key_bytes());
                self.slots[i] = Some((k, Box::new(v)));
                self.n = i + 1;
                None
            }
        }
    }

    pub fn get<Q: ?Sized + Eq + ModelKey>(&self, k: &Q) -> Option<&V>
    where
        K: Borrow<Q>,
    {
        match self.find(k) {
            Some(i) => Some(&*self.entry(i).1),
            None => None,
        }
    }

    pub fn get_mut<Q: ?Sized + Eq + ModelKey>(&mut self, k: &Q) -> Option<&mut V>
    where
        K: Borrow<Q>,
    {
        match self.find(k) {
            Some(i) => Some(&mut *self.entry_mut(i).1),
            None => None,
        }
    }

    pub fn contains_key<Q: ?Sized + Eq + ModelKey>(&self, k: &Q) -> bool
    where
        K: Borrow<Q>,
    {
        self.find(k).is_some()
    }

    /// Removes the entry and closes the gap (order of the others is kept).
    pub fn remove<Q: ?Sized + Eq + ModelKey>(&mut self, k: &Q) -> Option<V>
    where
        K: Borrow<Q>,
    {
        match self.find(k) {
            Some(i) => {
                let e = self.slots[i].take();
                let mut j = i;
                while j + 1 < self.n {
                    self.slots[j] = self.slots[j + 1].take();
                    self.fps[j] = self.fps[j + 1];
                    j += 1;
                }
                self.n -= 1;
                self.fps[self.n] = NO_FP;
                e.map(|(_, v)| *v)
            }
            None => None,
        }
    }

    pub fn iter(&self) -> Iter<'_, K, V> {
        Iter { map: self, i: 0 }
    }

    pub fn keys(&self) -> impl Iterator<Item = &K> {
        self.iter().map(|(k, _)| k)
    }

    pub fn values(&self) -> impl Iterator<Item = &V> {
        self.iter().map(|(_, v)| v)
    }
}

pub struct Iter<'a, K, V> {
    map: &'a HashMap<K, V>,
    i: usize,
}

impl<'a, K, V> Iterator for Iter<'a, K, V> {
    type Item = (&'a K, &'a V);
    fn next(&mut self) -> Option<Self::Item> {
        if self.i < self.map.n {
            let e = self.map.entry(self.i);
            self.i += 1;
            Some((&e.0, &*e.1))
        } else {
            None
        }
    }
}

impl<'a, K: Eq + ModelKey, V> IntoIterator for &'a HashMap<K, V> {
    type Item = (&'a K, &'a V);
    type IntoIter = Iter<'a, K, V>;
    fn into_iter(self) -> Self::IntoIter {
        self.iter()
    }
}

pub struct IntoIter<K, V> {
    map: HashMap<K, V>,
    i: usize,
}

impl<K, V> Iterator for IntoIter<K, V> {
    type Item = (K, V);
    fn next(&mut self) -> Option<(K, V)> {
        if self.i < self.map.n {
            let e = self.map.slots[self.i].take();
            self.i += 1;
            e.map(|(k, v)| (k, *v))
        } else {
            None
        }
    }
}

impl<K, V> IntoIterator for HashMap<K, V> {
    type Item = (K, V);
    type IntoIter = IntoIter<K, V>;
    fn into_iter(self) -> Self::IntoIter {
        IntoIter { map: self, i: 0 }
    }
}

impl<K: Eq + ModelKey, V> FromIterator<(K, V)> for HashMap<K, V> {
    fn from_iter<I: IntoIterator<Item = (K, V)>>(iter: I) -> Self {
        let mut m = HashMap::new();
        for (k, v) in iter {
            m.insert(k, v);
        }
        m
    }
}

impl<K: Eq + ModelKey, V, Q: ?Sized + Eq + ModelKey> std::ops::Index<&Q> for HashMap<K, V>
where
    K: Borrow<Q>,
{
    type Output = V;
    fn index(&self, k: &Q) -> &V {
        self.get(k).expect("no entry found for key")
    }
}

impl<K: Eq + ModelKey, V: PartialEq> PartialEq for HashMap<K, V> {
    fn eq(&self, other: &Self) -> bool {
        if self.n != other.n {
            return false;
        }
        let mut i = 0;
        while i < self.n {
            let e = self.entry(i);
            match other.get(&e.0) {
                Some(ov) if *ov == *e.1 => {}
                _ => return false,
            }
            i += 1;
        }
        true
    }
}

impl<K: fmt::Debug, V: fmt::Debug> fmt::Debug for HashMap<K, V> {
    fn fmt(&self, f: &mut fmt::Formatter<'_>) -> fmt::Result {
        let mut d = f.debug_map();
        let mut i = 0;
        while i < self.n {
            let e = self.entry(i);
            d.entry(&e.0, &*e.1);
            i += 1;
        }
        d.finish()
    }
}
