//! Association list with the `HashMap` API subset rdest uses.  Unique keys, last insert wins,
//! iteration in insertion order (real `HashMap` iterates in an arbitrary order; harnesses for
//! which order matters insert in a nondeterministic order).  Equality is order-independent,
//! like the real one.
use std::borrow::Borrow;
use std::fmt;

#[derive(Clone)]
pub struct HashMap<K, V> {
    items: Vec<(K, V)>,
}

impl<K, V> Default for HashMap<K, V> {
    fn default() -> Self {
        HashMap { items: Vec::new() }
    }
}

impl<K: Eq, V> HashMap<K, V> {
    pub fn new() -> Self {
        HashMap { items: Vec::new() }
    }

    pub fn len(&self) -> usize {
        self.items.len()
    }

    pub fn is_empty(&self) -> bool {
        self.items.is_empty()
    }

    pub fn insert(&mut self, k: K, v: V) -> Option<V> {
        for item in self.items.iter_mut() {
            if item.0 == k {
                return Some(std::mem::replace(&mut item.1, v));
            }
        }
        self.items.push((k, v));
        None
    }

    pub fn get<Q: ?Sized + Eq>(&self, k: &Q) -> Option<&V>
    where
        K: Borrow<Q>,
    {
        for item in self.items.iter() {
            if item.0.borrow() == k {
                return Some(&item.1);
            }
        }
        None
    }

    pub fn get_mut<Q: ?Sized + Eq>(&mut self, k: &Q) -> Option<&mut V>
    where
        K: Borrow<Q>,
    {
        for item in self.items.iter_mut() {
            if item.0.borrow() == k {
                return Some(&mut item.1);
            }
        }
        None
    }

    pub fn contains_key<Q: ?Sized + Eq>(&self, k: &Q) -> bool
    where
        K: Borrow<Q>,
    {
        self.get(k).is_some()
    }

    pub fn remove<Q: ?Sized + Eq>(&mut self, k: &Q) -> Option<V>
    where
        K: Borrow<Q>,
    {
        let mut idx = None;
        for (i, item) in self.items.iter().enumerate() {
            if item.0.borrow() == k {
                idx = Some(i);
                break;
            }
        }
        idx.map(|i| self.items.remove(i).1)
    }

    pub fn iter(&self) -> Iter<'_, K, V> {
        Iter {
            inner: self.items.iter(),
        }
    }

    pub fn iter_mut(&mut self) -> IterMut<'_, K, V> {
        IterMut {
            inner: self.items.iter_mut(),
        }
    }

    pub fn keys(&self) -> impl Iterator<Item = &K> {
        self.items.iter().map(|(k, _)| k)
    }

    pub fn values(&self) -> impl Iterator<Item = &V> {
        self.items.iter().map(|(_, v)| v)
    }
}

pub struct Iter<'a, K, V> {
    inner: std::slice::Iter<'a, (K, V)>,
}

impl<'a, K, V> Iterator for Iter<'a, K, V> {
    type Item = (&'a K, &'a V);
    fn next(&mut self) -> Option<Self::Item> {
        self.inner.next().map(|(k, v)| (k, v))
    }
}

pub struct IterMut<'a, K, V> {
    inner: std::slice::IterMut<'a, (K, V)>,
}

impl<'a, K, V> Iterator for IterMut<'a, K, V> {
    type Item = (&'a K, &'a mut V);
    fn next(&mut self) -> Option<Self::Item> {
        self.inner.next().map(|(k, v)| (&*k, v))
    }
}

impl<'a, K: Eq, V> IntoIterator for &'a HashMap<K, V> {
    type Item = (&'a K, &'a V);
    type IntoIter = Iter<'a, K, V>;
    fn into_iter(self) -> Self::IntoIter {
        self.iter()
    }
}

impl<K, V> IntoIterator for HashMap<K, V> {
    type Item = (K, V);
    type IntoIter = std::vec::IntoIter<(K, V)>;
    fn into_iter(self) -> Self::IntoIter {
        self.items.into_iter()
    }
}

impl<K: Eq, V> FromIterator<(K, V)> for HashMap<K, V> {
    fn from_iter<I: IntoIterator<Item = (K, V)>>(iter: I) -> Self {
        let mut m = HashMap::new();
        for (k, v) in iter {
            m.insert(k, v);
        }
        m
    }
}

impl<K: Eq, V, Q: ?Sized + Eq> std::ops::Index<&Q> for HashMap<K, V>
where
    K: Borrow<Q>,
{
    type Output = V;
    fn index(&self, k: &Q) -> &V {
        self.get(k).expect("no entry found for key")
    }
}

impl<K: Eq, V: PartialEq> PartialEq for HashMap<K, V> {
    fn eq(&self, other: &Self) -> bool {
        if self.items.len() != other.items.len() {
            return false;
        }
        for (k, v) in self.items.iter() {
            match other.get(k) {
                Some(ov) if ov == v => {}
                _ => return false,
            }
        }
        true
    }
}

impl<K: fmt::Debug, V: fmt::Debug> fmt::Debug for HashMap<K, V> {
    fn fmt(&self, f: &mut fmt::Formatter<'_>) -> fmt::Result {
        f.debug_map()
            .entries(self.items.iter().map(|(k, v)| (k, v)))
            .finish()
    }
}
