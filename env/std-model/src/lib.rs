//! Models of the two std facilities Kani cannot execute within reach on rdest:
//! `std::collections::HashMap` (hashbrown SIMD groups + SipHash) and `std::fs` (syscalls).
#![allow(static_mut_refs)]

pub mod fs;
mod hashmap;

pub use hashmap::{HashMap, ModelKey};
