//! In-memory `std::fs` subset used by rdest's extractor and metainfo modules: `File`
//! (`Read + Seek + Write`), `create_dir_all`, `read`, `write`, `metadata`.  Every path handed
//! to a creating call is logged so harnesses can assert on *where* rdest writes.
use std::io::{self, Read, Seek, SeekFrom, Write};
use std::path::{Path, PathBuf};

pub struct Store {
    pub files: Vec<(PathBuf, Vec<u8>)>,
    pub created_dirs: Vec<PathBuf>,
    pub created_files: Vec<PathBuf>,
    pub opened_files: Vec<PathBuf>,
}

static mut STORE: Store = Store {
    files: Vec::new(),
    created_dirs: Vec::new(),
    created_files: Vec::new(),
    opened_files: Vec::new(),
};

pub fn store() -> &'static mut Store {
    unsafe { &mut STORE }
}

pub fn reset() {
    let s = store();
    s.files = Vec::new();
    s.created_dirs = Vec::new();
    s.created_files = Vec::new();
    s.opened_files = Vec::new();
}

fn find(path: &Path) -> Option<usize> {
    let s = store();
    for (i, (p, _)) in s.files.iter().enumerate() {
        if p.as_path() == path {
            return Some(i);
        }
    }
    None
}

/// Model-only: place a file in the store.
pub fn put(path: impl AsRef<Path>, data: Vec<u8>) {
    let path = path.as_ref();
    match find(path) {
        Some(i) => store().files[i].1 = data,
        None => store().files.push((path.to_path_buf(), data)),
    }
}

/// Model-only: content of a file in the store.
pub fn content(path: impl AsRef<Path>) -> Option<&'static Vec<u8>> {
    find(path.as_ref()).map(|i| &store().files[i].1)
}

pub fn create_dir_all(path: impl AsRef<Path>) -> io::Result<()> {
    store().created_dirs.push(path.as_ref().to_path_buf());
    Ok(())
}

pub fn read(path: impl AsRef<Path>) -> io::Result<Vec<u8>> {
    match find(path.as_ref()) {
        Some(i) => Ok(store().files[i].1.clone()),
        None => Err(io::Error::from(io::ErrorKind::NotFound)),
    }
}

pub fn write(path: impl AsRef<Path>, contents: impl AsRef<[u8]>) -> io::Result<()> {
    store().created_files.push(path.as_ref().to_path_buf());
    put(path, contents.as_ref().to_vec());
    Ok(())
}

pub struct Metadata {
    len: u64,
}

impl Metadata {
    pub fn is_dir(&self) -> bool {
        false
    }
    pub fn len(&self) -> u64 {
        self.len
    }
}

pub fn metadata(path: impl AsRef<Path>) -> io::Result<Metadata> {
    match find(path.as_ref()) {
        Some(i) => Ok(Metadata {
            len: store().files[i].1.len() as u64,
        }),
        None => Err(io::Error::from(io::ErrorKind::NotFound)),
    }
}

pub struct File {
    idx: usize,
    pos: usize,
}

impl File {
    pub fn create(path: impl AsRef<Path>) -> io::Result<File> {
        let path = path.as_ref();
        store().created_files.push(path.to_path_buf());
        let idx = match find(path) {
            Some(i) => {
                store().files[i].1 = Vec::new();
                i
            }
            None => {
                store().files.push((path.to_path_buf(), Vec::new()));
                store().files.len() - 1
            }
        };
        Ok(File { idx, pos: 0 })
    }

    pub fn open(path: impl AsRef<Path>) -> io::Result<File> {
        let path = path.as_ref();
        store().opened_files.push(path.to_path_buf());
        match find(path) {
            Some(idx) => Ok(File { idx, pos: 0 }),
            None => Err(io::Error::from(io::ErrorKind::NotFound)),
        }
    }
}

impl Read for File {
    fn read(&mut self, buf: &mut [u8]) -> io::Result<usize> {
        let data = &store().files[self.idx].1;
        if self.pos >= data.len() {
            return Ok(0);
        }
        let avail = data.len() - self.pos;
        let n = if avail < buf.len() { avail } else { buf.len() };
        buf[..n].copy_from_slice(&data[self.pos..self.pos + n]);
        self.pos += n;
        Ok(n)
    }
}

impl Seek for File {
    fn seek(&mut self, from: SeekFrom) -> io::Result<u64> {
        let len = store().files[self.idx].1.len() as i64;
        let new = match from {
            SeekFrom::Start(p) => p as i64,
            SeekFrom::End(d) => len + d,
            SeekFrom::Current(d) => self.pos as i64 + d,
        };
        if new < 0 {
            return Err(io::Error::from(io::ErrorKind::InvalidInput));
        }
        self.pos = new as usize;
        Ok(new as u64)
    }
}

impl Write for File {
    fn write(&mut self, buf: &[u8]) -> io::Result<usize> {
        let data = &mut store().files[self.idx].1;
        if self.pos > data.len() {
            data.resize(self.pos, 0);
        }
        let overlap = if data.len() - self.pos < buf.len() {
            data.len() - self.pos
        } else {
            buf.len()
        };
        data[self.pos..self.pos + overlap].copy_from_slice(&buf[..overlap]);
        data.extend_from_slice(&buf[overlap..]);
        self.pos += buf.len();
        Ok(buf.len())
    }

    fn flush(&mut self) -> io::Result<()> {
        Ok(())
    }
}
