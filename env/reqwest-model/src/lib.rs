//! Environment model of the reqwest API subset used by rdest's tracker client.
//! `send()` pops the next scripted outcome (connection error / HTTP status + body) and records
//! the URL and query pairs of every request.
#![allow(static_mut_refs)]

use std::fmt;

#[derive(Clone)]
pub enum Outcome {
    ConnectError,
    Http { status: u16, body: Vec<u8> },
}

pub struct Recorded {
    pub url: String,
    pub query: Vec<(String, String)>,
}

static mut SCRIPT: Vec<Outcome> = Vec::new();
static mut REQUESTS: Vec<Recorded> = Vec::new();

pub mod model {
    use super::*;
    pub fn script(outcomes: Vec<Outcome>) {
        unsafe { SCRIPT = outcomes }
    }
    pub fn requests() -> &'static Vec<Recorded> {
        unsafe { &REQUESTS }
    }
    pub fn reset() {
        unsafe {
            SCRIPT = Vec::new();
            REQUESTS = Vec::new();
        }
    }
}

#[derive(Debug)]
pub struct Error {}
impl fmt::Display for Error {
    fn fmt(&self, f: &mut fmt::Formatter<'_>) -> fmt::Result {
        f.write_str("request error")
    }
}
impl std::error::Error for Error {}

pub struct Client {}

impl Client {
    pub fn new() -> Client {
        Client {}
    }
    pub fn get(&self, url: &String) -> RequestBuilder {
        RequestBuilder {
            url: url.clone(),
            query: Vec::new(),
        }
    }
}

pub struct RequestBuilder {
    url: String,
    query: Vec<(String, String)>,
}

impl RequestBuilder {
    pub fn query<const N: usize>(mut self, params: &[(&str, String); N]) -> RequestBuilder {
        for (k, v) in params.iter() {
            self.query.push((k.to_string(), v.clone()));
        }
        self
    }

    pub async fn send(self) -> Result<Response, Error> {
        unsafe {
            REQUESTS.push(Recorded {
                url: self.url,
                query: self.query,
            });
            if SCRIPT.is_empty() {
                return Err(Error {});
            }
            match SCRIPT.remove(0) {
                Outcome::ConnectError => Err(Error {}),
                Outcome::Http { status, body } => Ok(Response { status, body }),
            }
        }
    }
}

pub struct Response {
    status: u16,
    body: Vec<u8>,
}

#[derive(Clone, Copy, PartialEq, Eq, Debug)]
pub struct StatusCode(u16);

impl StatusCode {
    pub fn is_success(&self) -> bool {
        self.0 >= 200 && self.0 < 300
    }
}

impl fmt::Display for StatusCode {
    fn fmt(&self, f: &mut fmt::Formatter<'_>) -> fmt::Result {
        write!(f, "{}", self.0)
    }
}

pub struct Body(Vec<u8>);
impl AsRef<[u8]> for Body {
    fn as_ref(&self) -> &[u8] {
        &self.0
    }
}

impl Response {
    pub fn status(&self) -> StatusCode {
        StatusCode(self.status)
    }
    pub async fn bytes(self) -> Result<Body, Error> {
        Ok(Body(self.body))
    }
}
