//! Scripted sockets.  A `TcpStream` has an input script (bytes the peer sends, optional EOF)
//! and a recording sink (bytes rdest writes).  `read_buf` hands over a *nondeterministic*
//! number (1..=available) of the scripted bytes, so TCP segmentation is a symbolic variable.
use std::cell::RefCell;
use crate::io;
use std::net::SocketAddr;
use std::rc::Rc;

pub struct StreamState {
    pub input: Vec<u8>,
    /// Only `input[..limit]` is ever delivered (lets harnesses use a symbolic stream length
    /// without a symbolic-size allocation).
    pub limit: usize,
    pub pos: usize,
    /// After the script is exhausted: `true` = peer closed (read returns 0), `false` = Pending.
    pub eof: bool,
    /// Every read fails with an I/O error.
    pub read_error: bool,
    /// Every write fails with an I/O error.
    pub write_error: bool,
    pub sink: Vec<u8>,
    /// If set, each read delivers exactly the next listed chunk size (clamped), instead of a
    /// nondeterministic one.  Used by the differential segmentation harnesses.
    pub chunks: Option<Vec<usize>>,
    /// If set, a read delivers everything that is left in one piece.
    pub deliver_all: bool,
    pub reads: usize,
    pub writes: usize,
}

#[derive(Clone)]
pub struct StreamHandle {
    pub state: Rc<RefCell<StreamState>>,
}

pub struct TcpStream {
    state: Rc<RefCell<StreamState>>,
}

impl TcpStream {
    /// Model-only constructor.
    pub fn scripted(input: Vec<u8>, eof: bool) -> (TcpStream, StreamHandle) {
        let limit = input.len();
        TcpStream::scripted_prefix(input, limit, eof)
    }

    /// Model-only constructor: the peer sends `input[..limit]`.
    pub fn scripted_prefix(input: Vec<u8>, limit: usize, eof: bool) -> (TcpStream, StreamHandle) {
        assert!(limit <= input.len());
        let state = Rc::new(RefCell::new(StreamState {
            input,
            limit,
            pos: 0,
            eof,
            read_error: false,
            write_error: false,
            sink: Vec::new(),
            chunks: None,
            deliver_all: false,
            reads: 0,
            writes: 0,
        }));
        (
            TcpStream {
                state: state.clone(),
            },
            StreamHandle { state },
        )
    }

    /// rdest only connects from `PeerHandler::run_incoming`; the model refuses or hands out an
    /// empty stream that the peer closed at once (nondeterministic).
    pub fn connect<A>(_addr: A) -> std::future::Ready<io::Result<TcpStream>> {
        std::future::ready(if crate::model::nondet::boolean() {
            Err(io::Error::from(io::ErrorKind::ConnectionRefused))
        } else {
            Ok(TcpStream::scripted(Vec::new(), true).0)
        })
    }

    pub fn peer_addr(&self) -> io::Result<SocketAddr> {
        Ok(SocketAddr::from(([127, 0, 0, 1], 1)))
    }

    pub(crate) fn state(&self) -> &Rc<RefCell<StreamState>> {
        &self.state
    }
}

impl StreamHandle {
    pub fn sink(&self) -> Vec<u8> {
        self.state.borrow().sink.clone()
    }
    pub fn sink_len(&self) -> usize {
        self.state.borrow().sink.len()
    }
    pub fn sink_byte(&self, i: usize) -> u8 {
        self.state.borrow().sink[i]
    }
    pub fn consumed(&self) -> usize {
        self.state.borrow().pos
    }
    pub fn push_input(&self, bytes: &[u8]) {
        let mut st = self.state.borrow_mut();
        let limit = st.limit;
        st.input.truncate(limit);
        st.input.extend_from_slice(bytes);
        st.limit = st.input.len();
    }
    pub fn set_eof(&self, eof: bool) {
        self.state.borrow_mut().eof = eof;
    }
    pub fn set_chunks(&self, chunks: Vec<usize>) {
        self.state.borrow_mut().chunks = Some(chunks);
    }
    pub fn set_deliver_all(&self, v: bool) {
        self.state.borrow_mut().deliver_all = v;
    }
    /// Model-only: the peer already sent `input[..pos]` (consumed elsewhere by the harness).
    pub fn set_pos(&self, pos: usize) {
        self.state.borrow_mut().pos = pos;
    }
    pub fn set_write_error(&self, v: bool) {
        self.state.borrow_mut().write_error = v;
    }
    pub fn set_read_error(&self, v: bool) {
        self.state.borrow_mut().read_error = v;
    }
}

pub struct TcpListener {}

impl TcpListener {
    pub fn bind<A>(_addr: A) -> std::future::Ready<io::Result<TcpListener>> {
        std::future::ready(Ok(TcpListener {}))
    }

    /// No inbound connection ever arrives in the model.
    pub fn accept(&self) -> std::future::Pending<io::Result<(TcpStream, SocketAddr)>> {
        std::future::pending()
    }
}
