//! `AsyncReadExt::read_buf` / `AsyncWriteExt::write_all` for the scripted `TcpStream`.
use crate::model::nondet;
use crate::net::TcpStream;
use bytes::BufMut;

/// I/O error of the model: a plain kind tag.  (`std::io::Error`'s bit-packed representation
/// and its `Box<dyn Error>` drop glue dominate CBMC's run time; rdest never inspects socket
/// errors, it only maps them.)
#[derive(Debug, Clone, Copy, PartialEq, Eq)]
pub struct Error {
    pub kind: ErrorKind,
}

#[derive(Debug, Clone, Copy, PartialEq, Eq)]
pub enum ErrorKind {
    NotFound,
    PermissionDenied,
    ConnectionRefused,
    ConnectionReset,
    BrokenPipe,
    Other,
}

impl Error {
    pub fn from(kind: ErrorKind) -> Error {
        Error { kind }
    }
    pub fn kind(&self) -> ErrorKind {
        self.kind
    }
}

impl std::fmt::Display for Error {
    fn fmt(&self, f: &mut std::fmt::Formatter<'_>) -> std::fmt::Result {
        f.write_str("i/o error (model)")
    }
}

impl std::error::Error for Error {}

pub type Result<T> = std::result::Result<T, Error>;

mod io {
    pub use super::{Error, ErrorKind, Result};
}

pub trait AsyncReadExt {
    fn read_buf<'a, B: BufMut>(&'a mut self, buf: &'a mut B) -> ReadBuf<'a, B>;
}

pub trait AsyncWriteExt {
    fn write_all<'a>(&'a mut self, src: &'a [u8]) -> WriteAll<'a>;
}

// The futures are hand-written state-less structs rather than `async fn`s: every extra level
// of compiler-generated coroutine nesting multiplies CBMC's time and memory by about ten.

pub struct ReadBuf<'a, B: BufMut> {
    stream: &'a mut TcpStream,
    buf: &'a mut B,
}

pub struct WriteAll<'a> {
    stream: &'a mut TcpStream,
    src: &'a [u8],
}

impl AsyncReadExt for TcpStream {
    fn read_buf<'a, B: BufMut>(&'a mut self, buf: &'a mut B) -> ReadBuf<'a, B> {
        ReadBuf { stream: self, buf }
    }
}

impl AsyncWriteExt for TcpStream {
    fn write_all<'a>(&'a mut self, src: &'a [u8]) -> WriteAll<'a> {
        WriteAll { stream: self, src }
    }
}

impl<'a, B: BufMut> std::future::Future for ReadBuf<'a, B> {
    type Output = io::Result<usize>;
    fn poll(self: std::pin::Pin<&mut Self>, _cx: &mut std::task::Context<'_>) -> std::task::Poll<Self::Output> {
        use std::task::Poll;
        let this = unsafe { self.get_unchecked_mut() };
        let mut st = this.stream.state().borrow_mut();
        if st.read_error {
            return Poll::Ready(Err(io::Error::from(io::ErrorKind::ConnectionReset)));
        }
        let avail = st.limit - st.pos;
        if avail > 0 {
            let start = st.pos;
            if st.deliver_all {
                let limit = st.limit;
                this.buf.put_slice(&st.input[start..limit]);
                st.pos = limit;
                st.reads += 1;
                return Poll::Ready(Ok(avail));
            }
            let room = this.buf.remaining_mut();
            let max = if avail < room { avail } else { room };
            if max == 0 {
                return Poll::Ready(Ok(0));
            }
            let n = match st.chunks.as_mut() {
                Some(chunks) if !chunks.is_empty() => {
                    let c = chunks.remove(0);
                    if c == 0 {
                        1
                    } else if c > max {
                        max
                    } else {
                        c
                    }
                }
                Some(_) => max,
                None => nondet::range(1, max),
            };
            this.buf.put_slice(&st.input[start..start + n]);
            st.pos = start + n;
            st.reads += 1;
            return Poll::Ready(Ok(n));
        }
        if st.eof {
            return Poll::Ready(Ok(0));
        }
        Poll::Pending
    }
}

impl<'a> std::future::Future for WriteAll<'a> {
    type Output = io::Result<()>;
    fn poll(self: std::pin::Pin<&mut Self>, _cx: &mut std::task::Context<'_>) -> std::task::Poll<Self::Output> {
        use std::task::Poll;
        let mut st = self.stream.state().borrow_mut();
        if st.write_error {
            return Poll::Ready(Err(io::Error::from(io::ErrorKind::BrokenPipe)));
        }
        st.sink.extend_from_slice(self.src);
        st.writes += 1;
        Poll::Ready(Ok(()))
    }
}
