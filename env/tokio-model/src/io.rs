//! `AsyncReadExt::read_buf` / `AsyncWriteExt::write_all` for the scripted `TcpStream`.
use crate::model::nondet;
use crate::net::TcpStream;
use bytes::BufMut;

/// I/O error of the model: a plain kind tag.  (`std::io::Error`'s bit-packed representation
/// and its `Box<dyn Error>` drop glue dominate CBMC's run time; rdest never inspects socket
/// errors, it only maps them.)
#[derive(Debug, Clone, Copy, PartialEq, Eq)]
pub struct Error {
    pub kind: ErrorKind,
}

#[derive(Debug, Clone, Copy, PartialEq, Eq)]
pub enum ErrorKind {
    NotFound,
    PermissionDenied,
    ConnectionRefused,
    ConnectionReset,
    BrokenPipe,
    Other,
}

impl Error {
    pub fn from(kind: ErrorKind) -> Error {
        Error { kind }
    }
    pub fn kind(&self) -> ErrorKind {
        self.kind
    }
}

impl std::fmt::Display for Error {
    fn fmt(&self, f: &mut std::fmt::Formatter<'_>) -> std::fmt::Result {
        f.write_str("i/o error (model)")
    }
}

impl std::error::Error for Error {}

pub type Result<T> = std::result::Result<T, Error>;

mod io {
    pub use super::{Error, ErrorKind, Result};
}

pub trait AsyncReadExt {
    async fn read_buf<B: BufMut>(&mut self, buf: &mut B) -> io::Result<usize>;
}

pub trait AsyncWriteExt {
    async fn write_all(&mut self, src: &[u8]) -> io::Result<()>;
}

/// A read that has nothing to deliver yet.
struct Never;
impl std::future::Future for Never {
    type Output = ();
    fn poll(
        self: std::pin::Pin<&mut Self>,
        _cx: &mut std::task::Context<'_>,
    ) -> std::task::Poll<()> {
        std::task::Poll::Pending
    }
}

impl AsyncReadExt for TcpStream {
    async fn read_buf<B: BufMut>(&mut self, buf: &mut B) -> io::Result<usize> {
        loop {
            {
                let mut st = self.state().borrow_mut();
                if st.read_error {
                    return Err(io::Error::from(io::ErrorKind::ConnectionReset));
                }
                let avail = st.limit - st.pos;
                if avail > 0 {
                    let start = st.pos;
                    if st.deliver_all {
                        let limit = st.limit;
                        buf.put_slice(&st.input[start..limit]);
                        st.pos = limit;
                        st.reads += 1;
                        return Ok(avail);
                    }
                    let room = buf.remaining_mut();
                    let max = if avail < room { avail } else { room };
                    if max == 0 {
                        return Ok(0);
                    }
                    let n = match st.chunks.as_mut() {
                        Some(chunks) if !chunks.is_empty() => {
                            let c = chunks.remove(0);
                            if c == 0 {
                                1
                            } else if c > max {
                                max
                            } else {
                                c
                            }
                        }
                        Some(_) => max,
                        None => nondet::range(1, max),
                    };
                    buf.put_slice(&st.input[start..start + n]);
                    st.pos = start + n;
                    st.reads += 1;
                    return Ok(n);
                }
                if st.eof {
                    return Ok(0);
                }
            }
            Never.await;
        }
    }
}

impl AsyncWriteExt for TcpStream {
    async fn write_all(&mut self, src: &[u8]) -> io::Result<()> {
        let mut st = self.state().borrow_mut();
        if st.write_error {
            return Err(io::Error::from(io::ErrorKind::BrokenPipe));
        }
        st.sink.extend_from_slice(src);
        st.writes += 1;
        Ok(())
    }
}
