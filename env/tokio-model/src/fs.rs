//! In-memory file store with a write log.  Paths are compared as strings.
use crate::io;
use std::path::Path;

pub struct Store {
    pub files: Vec<(String, Vec<u8>)>,
    pub write_log: Vec<(String, Vec<u8>)>,
    pub read_log: Vec<String>,
    pub fail_writes: bool,
}

static mut STORE: Store = Store {
    files: Vec::new(),
    write_log: Vec::new(),
    read_log: Vec::new(),
    fail_writes: false,
};

/// Model-only access for harnesses.
pub fn store() -> &'static mut Store {
    unsafe { &mut STORE }
}

pub fn reset() {
    let s = store();
    s.files = Vec::new();
    s.write_log = Vec::new();
    s.read_log = Vec::new();
    s.fail_writes = false;
}

fn key(path: &Path) -> String {
    path.to_string_lossy().into_owned()
}

pub fn read(path: impl AsRef<Path>) -> std::future::Ready<io::Result<Vec<u8>>> {
    std::future::ready(read_now(path.as_ref()))
}

fn read_now(path: &Path) -> io::Result<Vec<u8>> {
    let k = key(path);
    let s = store();
    s.read_log.push(k.clone());
    for (name, data) in s.files.iter() {
        if *name == k {
            return Ok(data.clone());
        }
    }
    Err(io::Error::from(io::ErrorKind::NotFound))
}

pub fn write(path: impl AsRef<Path>, contents: impl AsRef<[u8]>) -> std::future::Ready<io::Result<()>> {
    std::future::ready(write_now(path.as_ref(), contents.as_ref()))
}

fn write_now(path: &Path, contents: &[u8]) -> io::Result<()> {
    let k = key(path);
    let s = store();
    if s.fail_writes {
        return Err(io::Error::from(io::ErrorKind::PermissionDenied));
    }
    let data = contents.to_vec();
    s.write_log.push((k.clone(), data.clone()));
    for (name, old) in s.files.iter_mut() {
        if *name == k {
            *old = data;
            return Ok(());
        }
    }
    s.files.push((k, data));
    Ok(())
}
