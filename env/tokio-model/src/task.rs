//! Tasks are recorded, not run: `spawn` boxes the future and `JoinHandle` runs it to
//! completion when (and only when) it is awaited.  rdest awaits a handle only after the task
//! told the manager it is finishing, so "run at join" is an admissible schedule.
use std::fmt;
use std::future::Future;
use std::pin::Pin;
use std::task::{Context, Poll};

pub struct JoinHandle<T> {
    fut: Option<Pin<Box<dyn Future<Output = T>>>>,
}

#[derive(Debug)]
pub struct JoinError;
impl fmt::Display for JoinError {
    fn fmt(&self, f: &mut fmt::Formatter<'_>) -> fmt::Result {
        f.write_str("task failed")
    }
}
impl std::error::Error for JoinError {}

static mut SPAWNED: usize = 0;

/// Model-only: how many tasks were spawned so far.
pub fn spawned_count() -> usize {
    unsafe { SPAWNED }
}

pub fn spawn<F: Future + 'static>(fut: F) -> JoinHandle<F::Output> {
    unsafe { SPAWNED += 1 };
    JoinHandle {
        fut: Some(Box::pin(fut)),
    }
}

impl<T> JoinHandle<T> {
    /// Model-only: a handle whose task already finished.
    pub fn finished(value: T) -> JoinHandle<T>
    where
        T: 'static,
    {
        JoinHandle {
            fut: Some(Box::pin(std::future::ready(value))),
        }
    }
}

impl<T> Unpin for JoinHandle<T> {}

impl<T> Future for JoinHandle<T> {
    type Output = Result<T, JoinError>;
    fn poll(mut self: Pin<&mut Self>, cx: &mut Context<'_>) -> Poll<Self::Output> {
        match self.fut.as_mut() {
            Some(f) => match f.as_mut().poll(cx) {
                Poll::Ready(v) => {
                    self.fut = None;
                    Poll::Ready(Ok(v))
                }
                Poll::Pending => Poll::Pending,
            },
            None => Poll::Ready(Err(JoinError)),
        }
    }
}

impl<T> fmt::Debug for JoinHandle<T> {
    fn fmt(&self, f: &mut fmt::Formatter<'_>) -> fmt::Result {
        f.write_str("JoinHandle")
    }
}
