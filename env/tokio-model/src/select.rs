//! `select!` with tokio's semantics, adapted from tokio 1.x `macros/select.rs` (MIT): branches
//! are polled once each starting at a *nondeterministic* branch; the first ready branch whose
//! pattern matches wins; a ready branch whose pattern does not match is disabled; all
//! branches disabled and no `else` => panic; otherwise `Pending`.  Supports up to 6 branches,
//! no `if` guards beyond what rdest uses, no proc-macros.

#[doc(hidden)]
pub enum Out<T0, T1, T2, T3, T4, T5> {
    _0(T0),
    _1(T1),
    _2(T2),
    _3(T3),
    _4(T4),
    _5(T5),
    Disabled,
}

#[macro_export]
#[doc(hidden)]
macro_rules! select_out_type {
    (_) => { $crate::select_support::Out<_, (), (), (), (), ()> };
    (_ _) => { $crate::select_support::Out<_, _, (), (), (), ()> };
    (_ _ _) => { $crate::select_support::Out<_, _, _, (), (), ()> };
    (_ _ _ _) => { $crate::select_support::Out<_, _, _, _, (), ()> };
    (_ _ _ _ _) => { $crate::select_support::Out<_, _, _, _, _, ()> };
    (_ _ _ _ _ _) => { $crate::select_support::Out<_, _, _, _, _, _> };
}

#[macro_export]
#[doc(hidden)]
macro_rules! select_variant {
    (()) => { $crate::select_support::Out::_0 };
    ((_)) => { $crate::select_support::Out::_1 };
    ((_ _)) => { $crate::select_support::Out::_2 };
    ((_ _ _)) => { $crate::select_support::Out::_3 };
    ((_ _ _ _)) => { $crate::select_support::Out::_4 };
    ((_ _ _ _ _)) => { $crate::select_support::Out::_5 };
    (() ($p:pat)) => { $crate::select_support::Out::_0($p) };
    ((_) ($p:pat)) => { $crate::select_support::Out::_1($p) };
    ((_ _) ($p:pat)) => { $crate::select_support::Out::_2($p) };
    ((_ _ _) ($p:pat)) => { $crate::select_support::Out::_3($p) };
    ((_ _ _ _) ($p:pat)) => { $crate::select_support::Out::_4($p) };
    ((_ _ _ _ _) ($p:pat)) => { $crate::select_support::Out::_5($p) };
}

#[macro_export]
#[doc(hidden)]
macro_rules! count {
    () => { 0 };
    (_) => { 1 };
    (_ _) => { 2 };
    (_ _ _) => { 3 };
    (_ _ _ _) => { 4 };
    (_ _ _ _ _) => { 5 };
    (_ _ _ _ _ _) => { 6 };
}

#[macro_export]
#[doc(hidden)]
macro_rules! count_field {
    ($var:ident. ) => { $var.0 };
    ($var:ident. _) => { $var.1 };
    ($var:ident. _ _) => { $var.2 };
    ($var:ident. _ _ _) => { $var.3 };
    ($var:ident. _ _ _ _) => { $var.4 };
    ($var:ident. _ _ _ _ _) => { $var.5 };
}

#[macro_export]
macro_rules! select {
    (@ {
        start=$start:expr;
        ( $($count:tt)* )
        $( ( $($skip:tt)* ) $bind:pat = $fut:expr, if $c:expr => $handle:expr, )+
        ; $else:expr
    }) => {{
        const BRANCHES: u32 = $crate::count!( $($count)* );

        let mut disabled: u64 = 0;

        $(
            if !$c {
                let mask: u64 = 1 << $crate::count!( $($skip)* );
                disabled |= mask;
            }
        )*

        let output: $crate::select_out_type!( $($count)* ) = {
            let futures_init = ($( $fut, )+);

            let mut futures = ($( $crate::macros::support::IntoFuture::into_future(
                        $crate::count_field!( futures_init.$($skip)* )
            ),)+);

            let futures = &mut futures;

            $crate::macros::support::poll_fn(|cx| {
                let mut is_pending = false;

                let start = $start;

                for i in 0..BRANCHES {
                    let branch;
                    {
                        branch = (start + i) % BRANCHES;
                    }
                    match branch {
                        $(
                            #[allow(unreachable_code)]
                            $crate::count!( $($skip)* ) => {
                                let mask = 1 << branch;

                                if disabled & mask == mask {
                                    continue;
                                }

                                let ( $($skip,)* fut, .. ) = &mut *futures;

                                let fut = unsafe { $crate::macros::support::Pin::new_unchecked(fut) };

                                let out = match $crate::macros::support::Future::poll(fut, cx) {
                                    $crate::macros::support::Poll::Ready(out) => out,
                                    $crate::macros::support::Poll::Pending => {
                                        is_pending = true;
                                        continue;
                                    }
                                };

                                disabled |= mask;

                                #[allow(unused_variables)]
                                #[allow(unused_mut)]
                                #[allow(unreachable_patterns)]
                                match &out {
                                    $bind => {}
                                    _ => continue,
                                }

                                return $crate::macros::support::Poll::Ready($crate::select_variant!(($($skip)*))(out));
                            }
                        )*
                        _ => unreachable!("reaching this means there probably is an off by one bug"),
                    }
                }

                if is_pending {
                    $crate::macros::support::Poll::Pending
                } else {
                    $crate::macros::support::Poll::Ready($crate::select_support::Out::Disabled)
                }
            }).await
        };

        #[allow(unreachable_patterns)]
        match output {
            $(
                $crate::select_variant!(($($skip)*) ($bind)) => $handle,
            )*
            $crate::select_support::Out::Disabled => $else,
            _ => unreachable!("failed to match bind"),
        }
    }};

    (@ { start=$start:expr; $($t:tt)* } ) => {
        $crate::select!(@{ start=$start; $($t)*; panic!("all branches are disabled and there is no else branch") })
    };
    (@ { start=$start:expr; $($t:tt)* } else => $else:expr $(,)?) => {
        $crate::select!(@{ start=$start; $($t)*; $else })
    };
    (@ { start=$start:expr; ( $($s:tt)* ) $($t:tt)* } $p:pat = $f:expr, if $c:expr => $h:block, $($r:tt)* ) => {
        $crate::select!(@{ start=$start; ($($s)* _) $($t)* ($($s)*) $p = $f, if $c => $h, } $($r)*)
    };
    (@ { start=$start:expr; ( $($s:tt)* ) $($t:tt)* } $p:pat = $f:expr => $h:block, $($r:tt)* ) => {
        $crate::select!(@{ start=$start; ($($s)* _) $($t)* ($($s)*) $p = $f, if true => $h, } $($r)*)
    };
    (@ { start=$start:expr; ( $($s:tt)* ) $($t:tt)* } $p:pat = $f:expr, if $c:expr => $h:block $($r:tt)* ) => {
        $crate::select!(@{ start=$start; ($($s)* _) $($t)* ($($s)*) $p = $f, if $c => $h, } $($r)*)
    };
    (@ { start=$start:expr; ( $($s:tt)* ) $($t:tt)* } $p:pat = $f:expr => $h:block $($r:tt)* ) => {
        $crate::select!(@{ start=$start; ($($s)* _) $($t)* ($($s)*) $p = $f, if true => $h, } $($r)*)
    };
    (@ { start=$start:expr; ( $($s:tt)* ) $($t:tt)* } $p:pat = $f:expr, if $c:expr => $h:expr ) => {
        $crate::select!(@{ start=$start; ($($s)* _) $($t)* ($($s)*) $p = $f, if $c => $h, })
    };
    (@ { start=$start:expr; ( $($s:tt)* ) $($t:tt)* } $p:pat = $f:expr => $h:expr ) => {
        $crate::select!(@{ start=$start; ($($s)* _) $($t)* ($($s)*) $p = $f, if true => $h, })
    };
    (@ { start=$start:expr; ( $($s:tt)* ) $($t:tt)* } $p:pat = $f:expr, if $c:expr => $h:expr, $($r:tt)* ) => {
        $crate::select!(@{ start=$start; ($($s)* _) $($t)* ($($s)*) $p = $f, if $c => $h, } $($r)*)
    };
    (@ { start=$start:expr; ( $($s:tt)* ) $($t:tt)* } $p:pat = $f:expr => $h:expr, $($r:tt)* ) => {
        $crate::select!(@{ start=$start; ($($s)* _) $($t)* ($($s)*) $p = $f, if true => $h, } $($r)*)
    };

    ($(biased;)? else => $else:expr $(,)? ) => {{
        $else
    }};

    (biased; $p:pat = $($t:tt)* ) => {
        $crate::select!(@{ start=0; () } $p = $($t)*)
    };

    ( $p:pat = $($t:tt)* ) => {
        $crate::select!(@{ start={ $crate::macros::support::thread_rng_n(BRANCHES) }; () } $p = $($t)*)
    };

    () => {
        compile_error!("select! requires at least one branch.")
    };
}
