//! Environment model of the tokio API subset used by rdest.
//!
//! Single-threaded, waker-free: every future either completes at once or returns `Pending`
//! without registering a waker; the verification harness plays executor and "the other task".
//! Nondeterministic choices (read segmentation, select! start branch, connect failure) are
//! `kani::any()` under Kani and come from a scripted queue natively (see `model::nondet`).
#![allow(async_fn_in_trait)]
#![allow(static_mut_refs)]

pub mod fs;
pub mod io;
pub mod model;
pub mod net;
pub mod sync;
pub mod task;
pub mod time;

#[macro_use]
mod select;
#[doc(hidden)]
pub mod select_support {
    pub use crate::select::Out;
}

pub use task::spawn;

#[doc(hidden)]
pub mod macros {
    pub mod support {
        pub use std::future::{Future, IntoFuture};
        pub use std::pin::Pin;
        pub use std::task::Poll;

        pub use crate::model::poll_fn;

        /// Start branch of a non-biased select!: any branch (tokio uses a thread-local RNG).
        pub fn thread_rng_n(n: u32) -> u32 {
            crate::model::nondet::below(n as usize) as u32
        }
    }
}
