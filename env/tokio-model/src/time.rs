//! Virtual time: `Instant::now()` reads the harness-controlled clock; timers fire when the
//! harness has advanced the clock past their deadline, otherwise they are `Pending`.
pub use std::time::Duration;

use crate::model;
use std::future::Future;
use std::pin::Pin;
use std::task::{Context, Poll};

#[derive(Clone, Copy, PartialEq, Eq, PartialOrd, Ord, Debug)]
pub struct Instant {
    ms: u64,
}

impl Instant {
    pub fn now() -> Instant {
        Instant { ms: model::now_ms() }
    }
    pub fn as_ms(&self) -> u64 {
        self.ms
    }
}

impl std::ops::Add<Duration> for Instant {
    type Output = Instant;
    fn add(self, d: Duration) -> Instant {
        Instant {
            ms: self.ms + d.as_millis() as u64,
        }
    }
}

#[derive(Debug)]
pub struct Interval {
    next: u64,
    period: u64,
}

/// Like tokio: first tick at `start`, then every `period` (missed ticks fire back to back:
/// `MissedTickBehavior::Burst`, tokio's default).
pub fn interval_at(start: Instant, period: Duration) -> Interval {
    Interval {
        next: start.ms,
        period: period.as_millis() as u64,
    }
}

pub struct Tick<'a> {
    interval: &'a mut Interval,
}

impl Interval {
    pub fn tick(&mut self) -> Tick<'_> {
        Tick { interval: self }
    }
    pub fn next_deadline_ms(&self) -> u64 {
        self.next
    }
}

impl<'a> Future for Tick<'a> {
    type Output = Instant;
    fn poll(mut self: Pin<&mut Self>, _cx: &mut Context<'_>) -> Poll<Instant> {
        let now = model::now_ms();
        if now >= self.interval.next {
            let fired = self.interval.next;
            self.interval.next = fired + self.interval.period;
            Poll::Ready(Instant { ms: fired })
        } else {
            Poll::Pending
        }
    }
}

pub struct Sleep {
    deadline: u64,
}

pub fn sleep(d: Duration) -> Sleep {
    Sleep {
        deadline: model::now_ms() + d.as_millis() as u64,
    }
}

impl Future for Sleep {
    type Output = ();
    fn poll(self: Pin<&mut Self>, _cx: &mut Context<'_>) -> Poll<()> {
        if model::now_ms() >= self.deadline {
            Poll::Ready(())
        } else {
            Poll::Pending
        }
    }
}
