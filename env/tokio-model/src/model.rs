//! Harness-side controls of the model: nondeterminism source, executor, virtual clock.
use std::future::Future;
use std::pin::Pin;
use std::task::{Context, Poll, RawWaker, RawWakerVTable, Waker};

pub mod nondet {
    //! Source of nondeterministic choices.  Under Kani: `kani::any()`.  Natively (model
    //! validation tests): a scripted queue, defaulting to the largest allowed value.
    #[cfg(not(kani))]
    static mut SCRIPT: Vec<usize> = Vec::new();

    /// Natively: queue the answers the next `below`/`range` calls will return (clamped).
    #[cfg(not(kani))]
    pub fn script(vals: &[usize]) {
        unsafe {
            SCRIPT.clear();
            SCRIPT.extend_from_slice(vals);
        }
    }

    /// Any value in 0..n (n >= 1).
    pub fn below(n: usize) -> usize {
        #[cfg(kani)]
        {
            let v: usize = kani::any();
            kani::assume(v < n);
            v
        }
        #[cfg(not(kani))]
        unsafe {
            if SCRIPT.is_empty() {
                n - 1
            } else {
                let v = SCRIPT.remove(0);
                if v < n {
                    v
                } else {
                    n - 1
                }
            }
        }
    }

    /// Any value in lo..=hi.
    pub fn range(lo: usize, hi: usize) -> usize {
        lo + below(hi - lo + 1)
    }

    pub fn boolean() -> bool {
        below(2) == 1
    }
}

fn noop_raw_waker() -> RawWaker {
    fn clone(_: *const ()) -> RawWaker {
        noop_raw_waker()
    }
    fn noop(_: *const ()) {}
    static VTABLE: RawWakerVTable = RawWakerVTable::new(clone, noop, noop, noop);
    RawWaker::new(std::ptr::null(), &VTABLE)
}

/// Poll a future once with a no-op waker.
pub fn poll_once<F: Future + ?Sized>(fut: Pin<&mut F>) -> Poll<F::Output> {
    let waker = unsafe { Waker::from_raw(noop_raw_waker()) };
    let mut cx = Context::from_waker(&waker);
    fut.poll(&mut cx)
}

/// Run a future that must complete without ever waiting (every model primitive it touches is
/// ready).  Returns `None` if it would block.
pub fn run_ready<F: Future>(fut: F) -> Option<F::Output> {
    let mut fut = std::pin::pin!(fut);
    match poll_once(fut.as_mut()) {
        Poll::Ready(v) => Some(v),
        Poll::Pending => None,
    }
}

pub struct PollFn<F> {
    f: F,
}

impl<F> Unpin for PollFn<F> {}

pub fn poll_fn<T, F: FnMut(&mut Context<'_>) -> Poll<T>>(f: F) -> PollFn<F> {
    PollFn { f }
}

impl<T, F: FnMut(&mut Context<'_>) -> Poll<T>> Future for PollFn<F> {
    type Output = T;
    fn poll(mut self: Pin<&mut Self>, cx: &mut Context<'_>) -> Poll<T> {
        (self.f)(cx)
    }
}

// ---------------------------------------------------------------------------------------------
// Virtual clock (milliseconds).  Advanced only by the harness.
static mut NOW_MS: u64 = 0;

pub fn now_ms() -> u64 {
    unsafe { NOW_MS }
}

pub fn set_now_ms(v: u64) {
    unsafe { NOW_MS = v }
}

pub fn advance_ms(d: u64) {
    unsafe { NOW_MS += d }
}
