//! One-shot reply channel.
use std::cell::RefCell;
use std::fmt;
use std::future::Future;
use std::pin::Pin;
use std::rc::Rc;
use std::task::{Context, Poll};

struct Slot<T> {
    value: Option<T>,
    tx_alive: bool,
    rx_alive: bool,
}

pub struct Sender<T> {
    slot: Rc<RefCell<Slot<T>>>,
}

pub struct Receiver<T> {
    slot: Rc<RefCell<Slot<T>>>,
}

pub fn channel<T>() -> (Sender<T>, Receiver<T>) {
    let slot = Rc::new(RefCell::new(Slot {
        value: None,
        tx_alive: true,
        rx_alive: true,
    }));
    (Sender { slot: slot.clone() }, Receiver { slot })
}

pub mod error {
    use std::fmt;

    #[derive(Debug, PartialEq, Eq, Clone)]
    pub struct RecvError(pub(super) ());
    impl fmt::Display for RecvError {
        fn fmt(&self, f: &mut fmt::Formatter<'_>) -> fmt::Result {
            f.write_str("channel closed")
        }
    }
    impl std::error::Error for RecvError {}
}

impl<T> Sender<T> {
    pub fn send(self, value: T) -> Result<(), T> {
        let mut slot = self.slot.borrow_mut();
        if !slot.rx_alive {
            return Err(value);
        }
        slot.value = Some(value);
        Ok(())
    }
}

impl<T> Drop for Sender<T> {
    fn drop(&mut self) {
        self.slot.borrow_mut().tx_alive = false;
    }
}

impl<T> fmt::Debug for Sender<T> {
    fn fmt(&self, f: &mut fmt::Formatter<'_>) -> fmt::Result {
        f.write_str("oneshot::Sender")
    }
}

impl<T> Future for Receiver<T> {
    type Output = Result<T, error::RecvError>;
    fn poll(self: Pin<&mut Self>, _cx: &mut Context<'_>) -> Poll<Self::Output> {
        let mut slot = self.slot.borrow_mut();
        match slot.value.take() {
            Some(v) => Poll::Ready(Ok(v)),
            None if !slot.tx_alive => Poll::Ready(Err(error::RecvError(()))),
            None => Poll::Pending,
        }
    }
}

impl<T> Receiver<T> {
    /// Non-blocking variant used by harnesses.
    pub fn try_take(&mut self) -> Option<T> {
        self.slot.borrow_mut().value.take()
    }
}

impl<T> Drop for Receiver<T> {
    fn drop(&mut self) {
        self.slot.borrow_mut().rx_alive = false;
    }
}

impl<T> fmt::Debug for Receiver<T> {
    fn fmt(&self, f: &mut fmt::Formatter<'_>) -> fmt::Result {
        f.write_str("oneshot::Receiver")
    }
}
