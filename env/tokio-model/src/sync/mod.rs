pub mod broadcast;
pub mod mpsc;
pub mod oneshot;
