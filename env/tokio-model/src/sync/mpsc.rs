//! Bounded multi-producer single-consumer queue.  `send` is `Pending` while the queue is full,
//! `recv` is `Pending` while it is empty and a sender is alive.
use std::cell::RefCell;
use std::fmt;
use std::future::Future;
use std::pin::Pin;
use std::rc::Rc;
use std::task::{Context, Poll};

/// FIFO as a fixed array of slots plus explicit head/tail counters (plain fields stay
/// constants under CBMC's constant propagation; `Vec::len()` / `VecDeque` do not, and every
/// loop or index depending on them then unrolls to the unwind bound or runs out of memory).
/// At most 4 messages may pass through one channel in a harness run (checked).
const FIFO_SLOTS: usize = 4;

struct Fifo<T> {
    slots: [Option<T>; FIFO_SLOTS],
    head: usize,
    tail: usize,
}

impl<T> Fifo<T> {
    fn new() -> Self {
        Fifo {
            slots: [const { None }; FIFO_SLOTS],
            head: 0,
            tail: 0,
        }
    }
    fn len(&self) -> usize {
        self.tail - self.head
    }
    fn push_back(&mut self, v: T) {
        assert!(self.tail < FIFO_SLOTS, "tokio-model mpsc: more than 4 messages through one channel");
        self.slots[self.tail] = Some(v);
        self.tail += 1;
    }
    fn pop_front(&mut self) -> Option<T> {
        if self.head < self.tail {
            let v = self.slots[self.head].take();
            self.head += 1;
            v
        } else {
            None
        }
    }
}

struct Chan<T> {
    queue: Fifo<T>,
    cap: usize,
    senders: usize,
    rx_alive: bool,
}

pub struct Sender<T> {
    chan: Rc<RefCell<Chan<T>>>,
}

pub struct Receiver<T> {
    chan: Rc<RefCell<Chan<T>>>,
}

pub fn channel<T>(cap: usize) -> (Sender<T>, Receiver<T>) {
    assert!(cap > 0, "mpsc bounded channel requires buffer > 0");
    let chan = Rc::new(RefCell::new(Chan {
        queue: Fifo::new(),
        cap,
        senders: 1,
        rx_alive: true,
    }));
    (Sender { chan: chan.clone() }, Receiver { chan })
}

pub mod error {
    use std::fmt;

    pub struct SendError<T>(pub T);
    impl<T> fmt::Debug for SendError<T> {
        fn fmt(&self, f: &mut fmt::Formatter<'_>) -> fmt::Result {
            f.write_str("SendError { .. }")
        }
    }
    impl<T> fmt::Display for SendError<T> {
        fn fmt(&self, f: &mut fmt::Formatter<'_>) -> fmt::Result {
            f.write_str("channel closed")
        }
    }
    impl<T> std::error::Error for SendError<T> {}

    #[derive(Debug, PartialEq, Eq, Clone, Copy)]
    pub enum TryRecvError {
        Empty,
        Disconnected,
    }
}

pub struct Send<'a, T> {
    chan: &'a Rc<RefCell<Chan<T>>>,
    value: Option<T>,
}

impl<'a, T> Unpin for Send<'a, T> {}

impl<'a, T> Future for Send<'a, T> {
    type Output = Result<(), error::SendError<T>>;
    fn poll(mut self: Pin<&mut Self>, _cx: &mut Context<'_>) -> Poll<Self::Output> {
        let chan = self.chan.borrow();
        if !chan.rx_alive {
            drop(chan);
            let v = self.value.take().expect("Send polled after completion");
            return Poll::Ready(Err(error::SendError(v)));
        }
        if chan.queue.len() >= chan.cap {
            return Poll::Pending;
        }
        drop(chan);
        let v = self.value.take().expect("Send polled after completion");
        self.chan.borrow_mut().queue.push_back(v);
        Poll::Ready(Ok(()))
    }
}

impl<T> Sender<T> {
    pub fn send(&self, value: T) -> Send<'_, T> {
        Send {
            chan: &self.chan,
            value: Some(value),
        }
    }

    /// Model-only: number of queued messages.
    pub fn queued(&self) -> usize {
        self.chan.borrow().queue.len()
    }
}

impl<T> Clone for Sender<T> {
    fn clone(&self) -> Self {
        self.chan.borrow_mut().senders += 1;
        Sender {
            chan: self.chan.clone(),
        }
    }
}

impl<T> Drop for Sender<T> {
    fn drop(&mut self) {
        self.chan.borrow_mut().senders -= 1;
    }
}

impl<T> fmt::Debug for Sender<T> {
    fn fmt(&self, f: &mut fmt::Formatter<'_>) -> fmt::Result {
        f.write_str("Sender")
    }
}

pub struct Recv<'a, T> {
    chan: &'a Rc<RefCell<Chan<T>>>,
}

impl<'a, T> Future for Recv<'a, T> {
    type Output = Option<T>;
    fn poll(self: Pin<&mut Self>, _cx: &mut Context<'_>) -> Poll<Option<T>> {
        let mut chan = self.chan.borrow_mut();
        match chan.queue.pop_front() {
            Some(v) => Poll::Ready(Some(v)),
            None if chan.senders == 0 => Poll::Ready(None),
            None => Poll::Pending,
        }
    }
}

impl<T> Receiver<T> {
    pub fn recv(&mut self) -> Recv<'_, T> {
        Recv { chan: &self.chan }
    }

    pub fn try_recv(&mut self) -> Result<T, error::TryRecvError> {
        let mut chan = self.chan.borrow_mut();
        match chan.queue.pop_front() {
            Some(v) => Ok(v),
            None if chan.senders == 0 => Err(error::TryRecvError::Disconnected),
            None => Err(error::TryRecvError::Empty),
        }
    }

    /// Model-only: number of queued messages.
    pub fn queued(&self) -> usize {
        self.chan.borrow().queue.len()
    }
}

impl<T> Drop for Receiver<T> {
    fn drop(&mut self) {
        self.chan.borrow_mut().rx_alive = false;
    }
}

impl<T> fmt::Debug for Receiver<T> {
    fn fmt(&self, f: &mut fmt::Formatter<'_>) -> fmt::Result {
        f.write_str("Receiver")
    }
}
