//! Broadcast channel: every receiver subscribed at send time sees every value, in order.
//! Lagging (capacity overflow) is not modelled: harnesses send far fewer than the capacity.
use std::cell::RefCell;
use std::fmt;
use std::future::Future;
use std::pin::Pin;
use std::rc::Rc;
use std::task::{Context, Poll};

struct Shared<T> {
    log: Vec<T>,
    /// == log.len(), kept as a plain field (see mpsc.rs on why)
    count: usize,
    receivers: usize,
    senders: usize,
}

pub struct Sender<T> {
    shared: Rc<RefCell<Shared<T>>>,
}

pub struct Receiver<T> {
    shared: Rc<RefCell<Shared<T>>>,
    next: usize,
}

pub fn channel<T: Clone>(_cap: usize) -> (Sender<T>, Receiver<T>) {
    let shared = Rc::new(RefCell::new(Shared {
        log: Vec::new(),
        count: 0,
        receivers: 1,
        senders: 1,
    }));
    (
        Sender {
            shared: shared.clone(),
        },
        Receiver { shared, next: 0 },
    )
}

pub mod error {
    use std::fmt;

    pub struct SendError<T>(pub T);
    impl<T> fmt::Debug for SendError<T> {
        fn fmt(&self, f: &mut fmt::Formatter<'_>) -> fmt::Result {
            f.write_str("SendError { .. }")
        }
    }
    impl<T> fmt::Display for SendError<T> {
        fn fmt(&self, f: &mut fmt::Formatter<'_>) -> fmt::Result {
            f.write_str("channel closed")
        }
    }
    impl<T> std::error::Error for SendError<T> {}

    #[derive(Debug, PartialEq, Eq, Clone)]
    pub enum RecvError {
        Closed,
        Lagged(u64),
    }
    impl fmt::Display for RecvError {
        fn fmt(&self, f: &mut fmt::Formatter<'_>) -> fmt::Result {
            f.write_str("broadcast recv error")
        }
    }
    impl std::error::Error for RecvError {}
}

impl<T: Clone> Sender<T> {
    pub fn send(&self, value: T) -> Result<usize, error::SendError<T>> {
        let mut s = self.shared.borrow_mut();
        if s.receivers == 0 {
            return Err(error::SendError(value));
        }
        s.log.push(value);
        s.count += 1;
        Ok(s.receivers)
    }

    pub fn subscribe(&self) -> Receiver<T> {
        let mut s = self.shared.borrow_mut();
        s.receivers += 1;
        Receiver {
            shared: self.shared.clone(),
            next: s.count,
        }
    }

    /// Model-only: everything sent so far.
    pub fn sent(&self) -> Vec<T> {
        self.shared.borrow().log.clone()
    }
}

impl<T> Drop for Sender<T> {
    fn drop(&mut self) {
        self.shared.borrow_mut().senders -= 1;
    }
}

impl<T> fmt::Debug for Sender<T> {
    fn fmt(&self, f: &mut fmt::Formatter<'_>) -> fmt::Result {
        f.write_str("broadcast::Sender")
    }
}

pub struct Recv<'a, T> {
    rx: &'a mut Receiver<T>,
}

impl<'a, T: Clone> Future for Recv<'a, T> {
    type Output = Result<T, error::RecvError>;
    fn poll(mut self: Pin<&mut Self>, _cx: &mut Context<'_>) -> Poll<Self::Output> {
        let next = self.rx.next;
        let got = {
            let s = self.rx.shared.borrow();
            if next < s.count {
                Some(Ok(s.log[next].clone()))
            } else if s.senders == 0 {
                Some(Err(error::RecvError::Closed))
            } else {
                None
            }
        };
        match got {
            Some(Ok(v)) => {
                self.rx.next = next + 1;
                Poll::Ready(Ok(v))
            }
            Some(Err(e)) => Poll::Ready(Err(e)),
            None => Poll::Pending,
        }
    }
}

impl<T: Clone> Receiver<T> {
    pub fn recv(&mut self) -> Recv<'_, T> {
        Recv { rx: self }
    }
}

impl<T> Drop for Receiver<T> {
    fn drop(&mut self) {
        self.shared.borrow_mut().receivers -= 1;
    }
}

impl<T> fmt::Debug for Receiver<T> {
    fn fmt(&self, f: &mut fmt::Formatter<'_>) -> fmt::Result {
        f.write_str("broadcast::Receiver")
    }
}
