//! Environment model of the rand 0.8 API subset used by rdest.
//! Every random draw is `kani::any()` within its range under Kani ("all random tie-breaks");
//! natively the draws come from a scripted queue (default: largest value).
#![allow(static_mut_refs)]

pub mod nondet {
    #[cfg(not(kani))]
    static mut SCRIPT: Vec<usize> = Vec::new();

    #[cfg(not(kani))]
    pub fn script(vals: &[usize]) {
        unsafe {
            SCRIPT.clear();
            SCRIPT.extend_from_slice(vals);
        }
    }

    /// Any value in 0..n (n >= 1).
    pub fn below(n: usize) -> usize {
        #[cfg(kani)]
        {
            let v: usize = kani::any();
            kani::assume(v < n);
            v
        }
        #[cfg(not(kani))]
        unsafe {
            if SCRIPT.is_empty() {
                n - 1
            } else {
                let v = SCRIPT.remove(0);
                if v < n {
                    v
                } else {
                    n - 1
                }
            }
        }
    }
}

pub struct ThreadRng {}

pub fn thread_rng() -> ThreadRng {
    ThreadRng {}
}

pub mod rngs {
    pub use crate::ThreadRng;
}

pub mod distributions {
    pub struct Alphanumeric;
}

pub struct AlnumIter {}

impl Iterator for AlnumIter {
    type Item = u8;
    fn next(&mut self) -> Option<u8> {
        const CHARSET: &[u8; 62] =
            b"ABCDEFGHIJKLMNOPQRSTUVWXYZabcdefghijklmnopqrstuvwxyz0123456789";
        Some(CHARSET[nondet::below(62)])
    }
}

pub trait Rng: Sized {
    fn sample_iter(self, _d: &distributions::Alphanumeric) -> AlnumIter {
        AlnumIter {}
    }
}

impl Rng for ThreadRng {}

pub mod seq {
    use crate::nondet;

    pub trait SliceRandom {
        type Item;
        /// Fisher-Yates with a nondeterministic index at every step: every permutation is a
        /// possible outcome.
        fn shuffle<R>(&mut self, rng: &mut R);
        /// Any element (None iff empty).
        fn choose<R>(&self, rng: &mut R) -> Option<&Self::Item>;
    }

    impl<T> SliceRandom for [T] {
        type Item = T;

        fn shuffle<R>(&mut self, _rng: &mut R) {
            let n = self.len();
            if n < 2 {
                return;
            }
            let mut i = n - 1;
            while i >= 1 {
                let j = nondet::below(i + 1);
                self.swap(i, j);
                i -= 1;
            }
        }

        fn choose<R>(&self, _rng: &mut R) -> Option<&T> {
            if self.is_empty() {
                None
            } else {
                Some(&self[nondet::below(self.len())])
            }
        }
    }
}
