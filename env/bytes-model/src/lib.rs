//! Model of the `bytes` API subset rdest uses (`BytesMut`, `Buf::advance`, `BufMut::put_slice`).
//! Same documented contract as the real crate -- in particular `advance(n)` panics when
//! `n > remaining()` -- but backed by a plain byte store with start/end offsets, because the real
//! representation (tagged pointers, KIND_VEC/KIND_ARC promotion) dominates CBMC's run time.
use std::ops::{Deref, DerefMut};

pub trait Buf {
    fn remaining(&self) -> usize;
    fn chunk(&self) -> &[u8];
    fn advance(&mut self, cnt: usize);
    fn has_remaining(&self) -> bool {
        self.remaining() > 0
    }
}

pub trait BufMut {
    fn remaining_mut(&self) -> usize;
    fn put_slice(&mut self, src: &[u8]);
}

/// `buf` is a fixed-size zeroed backing store (its length is the capacity); the live bytes are
/// `buf[start..end]`.  Copies are byte loops and the store is reallocated only when it is
/// really full, so no allocation or memcpy has a symbolic size under CBMC.
#[derive(Clone, Debug)]
pub struct BytesMut {
    buf: Vec<u8>,
    start: usize,
    end: usize,
}

const MIN_CAP: usize = 16;

impl BytesMut {
    pub fn new() -> BytesMut {
        BytesMut::with_capacity(MIN_CAP)
    }

    pub fn with_capacity(cap: usize) -> BytesMut {
        let cap = if cap < MIN_CAP { MIN_CAP } else { cap };
        BytesMut {
            buf: vec![0u8; cap],
            start: 0,
            end: 0,
        }
    }

    pub fn len(&self) -> usize {
        self.end - self.start
    }

    pub fn is_empty(&self) -> bool {
        self.end == self.start
    }

    pub fn capacity(&self) -> usize {
        self.buf.len() - self.start
    }

    pub fn clear(&mut self) {
        self.start = 0;
        self.end = 0;
    }

    /// The real crate grows without limit.  The model's store has a fixed size chosen at
    /// construction (harnesses size it for every byte they will ever append); running out of
    /// room is reported as a failed check, never silently ignored.
    pub fn reserve(&mut self, additional: usize) {
        assert!(
            self.buf.len() - self.end >= additional,
            "bytes-model: fixed store exhausted (size the BytesMut for the whole scripted input)"
        );
    }

    pub fn extend_from_slice(&mut self, src: &[u8]) {
        if self.start == self.end {
            // everything consumed: reuse the store from its beginning
            self.start = 0;
            self.end = 0;
        }
        self.reserve(src.len());
        let (e, n) = (self.end, src.len());
        self.buf[e..e + n].copy_from_slice(src);
        self.end += src.len();
    }
}

impl PartialEq for BytesMut {
    fn eq(&self, other: &Self) -> bool {
        **self == **other
    }
}

impl Default for BytesMut {
    fn default() -> Self {
        BytesMut::new()
    }
}

impl Deref for BytesMut {
    type Target = [u8];
    fn deref(&self) -> &[u8] {
        &self.buf[self.start..self.end]
    }
}

impl DerefMut for BytesMut {
    fn deref_mut(&mut self) -> &mut [u8] {
        let (s, e) = (self.start, self.end);
        &mut self.buf[s..e]
    }
}

impl AsRef<[u8]> for BytesMut {
    fn as_ref(&self) -> &[u8] {
        self
    }
}

impl Buf for BytesMut {
    fn remaining(&self) -> usize {
        self.len()
    }

    fn chunk(&self) -> &[u8] {
        self
    }

    fn advance(&mut self, cnt: usize) {
        assert!(
            cnt <= self.remaining(),
            "cannot advance past `remaining`"
        );
        self.start += cnt;
    }
}

impl BufMut for BytesMut {
    fn remaining_mut(&self) -> usize {
        // the real BytesMut grows implicitly: usize::MAX - len
        usize::MAX - self.len()
    }

    fn put_slice(&mut self, src: &[u8]) {
        self.extend_from_slice(src);
    }
}
