// Replay of a solver counterexample (Kani concrete playback).
// property: C06
// harness-file: connection.rs
// harness: c06_parse_frame_total_9
// failed-check: a malformed frame is only passed over after skipping an unknown-id frame in this call @ ../vh/connection.rs:92:39 in function connection::verif_kani::parse_frame_total::<9>
// native-result: /var/tmp/rdest-verif.C06.26495/vh/connection.rs:92:39: a malformed frame is only passed over after skipping an unknown-id frame in this call
// rerun: cd /verif && ./check C06 --replay /verif/evidence/replay/C06-c06_parse_frame_total_9.rs
/// Test generated for harness `connection::verif_kani::c06_parse_frame_total_9` 
///
/// Check for `assertion`: ""a malformed frame is only passed over after skipping an unknown-id frame in this call""

#[test]
fn kani_concrete_playback_c06_parse_frame_total_9_4528823209169231543() {
    let concrete_vals: Vec<Vec<u8>> = vec![
        // 0
        vec![0],
        // 0
        vec![0],
        // 0
        vec![0],
        // 8
        vec![8],
        // 7
        vec![7],
        // 0
        vec![0],
        // 0
        vec![0],
        // 0
        vec![0],
        // 5
        vec![5],
        // 9ul
        vec![9, 0, 0, 0, 0, 0, 0, 0],
    ];
    kani::concrete_playback_run(concrete_vals, c06_parse_frame_total_9);
}
