// Replay of a solver counterexample (Kani concrete playback).
// property: C17
// harness-file: metainfo.rs
// harness: c17_accessors_safe_on_accepted_geometry
// config: 
// failed-check: attempt to subtract with overflow @ src/metainfo.rs:330:9 in function metainfo::Metainfo::piece_length
// native-result: src/metainfo.rs:330:9: attempt to subtract with overflow
// rerun: cd /verif && ./check C17 --replay /verif/evidence/replay/C17-c17_accessors_safe_on_accepted_geometry.rs
/// Test generated for harness `metainfo::verif_kani::c17_accessors_safe_on_accepted_geometry` 
///
/// Check for `assertion`: "attempt to subtract with overflow"

#[test]
fn kani_concrete_playback_c17_accessors_safe_on_accepted_geometry_4093552209335558517() {
    let concrete_vals: Vec<Vec<u8>> = vec![
        // 1224979098275676134ul
        vec![230, 255, 255, 233, 255, 255, 255, 16],
        // 3ul
        vec![3, 0, 0, 0, 0, 0, 0, 0],
        // 2ul
        vec![2, 0, 0, 0, 0, 0, 0, 0],
        // 0ul
        vec![0, 0, 0, 0, 0, 0, 0, 0],
        // 0ul
        vec![0, 0, 0, 0, 0, 0, 0, 0],
        // 2ul
        vec![2, 0, 0, 0, 0, 0, 0, 0],
    ];
    kani::concrete_playback_run(concrete_vals, c17_accessors_safe_on_accepted_geometry);
}
