// Replay of a solver counterexample (Kani concrete playback).
// property: C18
// harness-file: tracker_client.rs
// harness: c18_url_assembly_concrete_family_quick
// failed-check: parameter separator: ? for a bare url, & after an existing query @ ../vh/tracker_client.rs:76:5 in function tracker_client::verif_kani::url_for
// native-result: /var/tmp/rdest-verif.C18.30179/vh/tracker_client.rs:76:5: parameter separator: ? for a bare url, & after an existing query
// rerun: cd /verif && ./check C18 --replay /verif/evidence/replay/C18-c18_url_assembly_concrete_family_quick.rs
/// Test generated for harness `tracker_client::verif_kani::c18_url_assembly_concrete_family_quick` 
///
/// Check for `assertion`: ""parameter separator: ? for a bare url, & after an existing query""

#[test]
fn kani_concrete_playback_c18_url_assembly_concrete_family_quick_5538711915641553614() {
    let concrete_vals: Vec<Vec<u8>> = vec![
    ];
    kani::concrete_playback_run(concrete_vals, c18_url_assembly_concrete_family_quick);
}
