// Replay of a solver counterexample (Kani concrete playback).
// property: C03
// harness-file: metainfo.rs
// harness: c03_piece_pos_is_div_mod
// failed-check: piece index = offset / piece_length @ ../vh/metainfo.rs:95:5 in function metainfo::verif_kani::piece_pos_for
// native-result: /var/tmp/rdest-verif.C03.24567/vh/metainfo.rs:95:5: piece index = offset / piece_length
// rerun: cd /verif && ./check C03 --replay /verif/evidence/replay/C03-c03_piece_pos_is_div_mod.rs
/// Test generated for harness `metainfo::verif_kani::c03_piece_pos_is_div_mod` 
///
/// Check for `assertion`: ""piece index = offset / piece_length""

#[test]
fn kani_concrete_playback_c03_piece_pos_is_div_mod_3591310782993206149() {
    let concrete_vals: Vec<Vec<u8>> = vec![
        // 4160749568
        vec![0, 0, 0, 248],
    ];
    kani::concrete_playback_run(concrete_vals, c03_piece_pos_is_div_mod);
}
