// Replay of a solver counterexample (Kani concrete playback).
// property: C09
// harness-file: messages__request.rs
// harness: c09_request_validate_spec
// config: 
// failed-check: attempt to add with overflow @ src/messages/request.rs:97:12 in function messages::request::Request::validate
// native-result: src/messages/request.rs:97:12: attempt to add with overflow
// rerun: cd /verif && ./check C09 --replay /verif/evidence/replay/C09-c09_request_validate_spec.rs
/// Test generated for harness `messages::request::verif_kani::c09_request_validate_spec` 
///
/// Check for `assertion`: "attempt to add with overflow"

#[test]
fn kani_concrete_playback_c09_request_validate_spec_12111371998150310099() {
    let concrete_vals: Vec<Vec<u8>> = vec![
        // 2147483647
        vec![255, 255, 255, 127],
        // 4294967295
        vec![255, 255, 255, 255],
        // 16383
        vec![255, 63, 0, 0],
        // 2147483647ul
        vec![255, 255, 255, 127, 0, 0, 0, 0],
        // 4294967295ul
        vec![255, 255, 255, 255, 0, 0, 0, 0],
        // 8191ul
        vec![255, 31, 0, 0, 0, 0, 0, 0],
    ];
    kani::concrete_playback_run(concrete_vals, c09_request_validate_spec);
}
