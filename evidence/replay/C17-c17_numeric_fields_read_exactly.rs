// Replay of a solver counterexample (Kani concrete playback).
// property: C17
// harness-file: metainfo.rs
// harness: c17_numeric_fields_read_exactly
// config: 
// failed-check: a non-negative length (zero included) is returned as is @ ../vh/metainfo.rs:275:9 in function metainfo::verif_kani::c17_numeric_fields_read_exactly
// native-result: /var/tmp/rdest-verif.C17.6285/cfg-default/vh/metainfo.rs:275:9: a non-negative length (zero included) is returned as is
// rerun: cd /verif && ./check C17 --replay /verif/evidence/replay/C17-c17_numeric_fields_read_exactly.rs
/// Test generated for harness `metainfo::verif_kani::c17_numeric_fields_read_exactly` 
///
/// Check for `assertion`: ""a non-negative length (zero included) is returned as is""

#[test]
fn kani_concrete_playback_c17_numeric_fields_read_exactly_6264753042581640458() {
    let concrete_vals: Vec<Vec<u8>> = vec![
        // 0
        vec![0, 0, 0, 0, 0, 0, 0, 0],
        // -9223372036854775808
        vec![0, 0, 0, 0, 0, 0, 0, 128],
    ];
    kani::concrete_playback_run(concrete_vals, c17_numeric_fields_read_exactly);
}
