// Replay of a solver counterexample (Kani concrete playback).
// property: C06
// harness-file: frame.rs
// harness: c06_frame_parse_vs_reference_20
// failed-check: the decoder waits for more bytes only when a valid frame can still complete (no stall on malformed length) @ ../vh/frame.rs:102:13 in function frame::verif_kani::parse_vs_reference::<20>
// native-result: /var/tmp/rdest-verif.C06.14799/vh/frame.rs:102:13: the decoder waits for more bytes only when a valid frame can still complete (no stall on malformed length)
// rerun: cd /verif && ./check C06 --replay /verif/evidence/replay/C06-c06_frame_parse_vs_reference_20.rs
/// Test generated for harness `frame::verif_kani::c06_frame_parse_vs_reference_20` 
///
/// Check for `assertion`: ""the decoder waits for more bytes only when a valid frame can still complete (no stall on malformed length)""

#[test]
fn kani_concrete_playback_c06_frame_parse_vs_reference_20_12585459151793073219() {
    let concrete_vals: Vec<Vec<u8>> = vec![
        // 0
        vec![0],
        // 0
        vec![0],
        // 0
        vec![0],
        // 13
        vec![13],
        // 4
        vec![4],
        // 255
        vec![255],
        // 255
        vec![255],
        // 255
        vec![255],
        // 255
        vec![255],
        // 0
        vec![0],
        // 0
        vec![0],
        // 0
        vec![0],
        // 2
        vec![2],
        // 0
        vec![0],
        // 0
        vec![0],
        // 0
        vec![0],
        // 0
        vec![0],
        // 1
        vec![1],
        // 1
        vec![1],
        // 108
        vec![108],
        // 17ul
        vec![17, 0, 0, 0, 0, 0, 0, 0],
    ];
    kani::concrete_playback_run(concrete_vals, c06_frame_parse_vs_reference_20);
}
