// Replay of a solver counterexample (Kani concrete playback).
// property: C06
// harness-file: frame.rs
// harness: c06_frame_parse_vs_reference_20
// config: 
// failed-check: fatal errors only for streams that cannot become valid @ ../vh/frame.rs:106:13 in function frame::verif_kani::parse_vs_reference::<20>
// native-result: /var/tmp/rdest-verif.C06.2624/cfg-default/vh/frame.rs:106:13: fatal errors only for streams that cannot become valid
// rerun: cd /verif && ./check C06 --replay /verif/evidence/replay/C06-c06_frame_parse_vs_reference_20.rs
/// Test generated for harness `frame::verif_kani::c06_frame_parse_vs_reference_20` 
///
/// Check for `assertion`: ""fatal errors only for streams that cannot become valid""

#[test]
fn kani_concrete_playback_c06_frame_parse_vs_reference_20_8296427078805833737() {
    let concrete_vals: Vec<Vec<u8>> = vec![
        // 0
        vec![0],
        // 1
        vec![1],
        // 0
        vec![0],
        // 0
        vec![0],
        // 16
        vec![16],
        // 255
        vec![255],
        // 255
        vec![255],
        // 255
        vec![255],
        // 255
        vec![255],
        // 255
        vec![255],
        // 255
        vec![255],
        // 255
        vec![255],
        // 255
        vec![255],
        // 255
        vec![255],
        // 255
        vec![255],
        // 255
        vec![255],
        // 255
        vec![255],
        // 99
        vec![99],
        // 255
        vec![255],
        // 108
        vec![108],
        // 8ul
        vec![8, 0, 0, 0, 0, 0, 0, 0],
    ];
    kani::concrete_playback_run(concrete_vals, c06_frame_parse_vs_reference_20);
}
