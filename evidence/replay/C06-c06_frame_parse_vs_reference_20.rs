// Replay of a solver counterexample (Kani concrete playback).
// property: C06
// harness-file: frame.rs
// harness: c06_frame_parse_vs_reference_20
// failed-check: This is a placeholder message; Kani doesn't support message formatted at runtime @ ../../../../home/runner/.rustup/toolchains/nightly-2026-08-21-x86_64-unknown-linux-gnu/lib/rustlib/src/rust/library/core/src/slice/index.rs:59:9 in function core::slice::index::slice_index_fail::do_panic::runtime
// failed-check: the decoder waits for more bytes only when a valid frame can still complete (no stall on malformed length) @ ../vh/frame.rs:100:13 in function frame::verif_kani::parse_vs_reference::<20>
// failed-check: This is a placeholder message; Kani doesn't support message formatted at runtime @ ../../../../home/runner/.rustup/toolchains/nightly-2026-08-21-x86_64-unknown-linux-gnu/lib/rustlib/src/rust/library/core/src/slice/index.rs:50:9 in function core::slice::index::slice_index_fail::do_panic::runtime
// native-result: src/messages/piece.rs:44:51: range end index 13 out of range for slice of length 12
// rerun: cd /verif && ./check C06 --replay /verif/evidence/replay/C06-c06_frame_parse_vs_reference_20.rs
/// Test generated for harness `frame::verif_kani::c06_frame_parse_vs_reference_20` 
///
/// Check for `assertion`: "This is a placeholder message; Kani doesn't support message formatted at runtime"

#[test]
fn kani_concrete_playback_c06_frame_parse_vs_reference_20_4685201583066398064() {
    let concrete_vals: Vec<Vec<u8>> = vec![
        // 0
        vec![0],
        // 0
        vec![0],
        // 0
        vec![0],
        // 8
        vec![8],
        // 7
        vec![7],
        // 111
        vec![111],
        // 114
        vec![114],
        // 114
        vec![114],
        // 101
        vec![101],
        // 110
        vec![110],
        // 116
        vec![116],
        // 32
        vec![32],
        // 112
        vec![112],
        // 114
        vec![114],
        // 110
        vec![110],
        // 116
        vec![116],
        // 111
        vec![111],
        // 99
        vec![99],
        // 111
        vec![111],
        // 108
        vec![108],
        // 12ul
        vec![12, 0, 0, 0, 0, 0, 0, 0],
    ];
    kani::concrete_playback_run(concrete_vals, c06_frame_parse_vs_reference_20);
}
