// Replay of a solver counterexample (Kani concrete playback).
// property: C06
// harness-file: frame.rs
// harness: c06_frame_parse_vs_reference_20
// config: 
// failed-check: This is a placeholder message; Kani doesn't support message formatted at runtime @ ../../../../../home/runner/.rustup/toolchains/nightly-2026-08-21-x86_64-unknown-linux-gnu/lib/rustlib/src/rust/library/core/src/slice/index.rs:50:9 in function core::slice::index::slice_index_fail::do_panic::runtime
// native-result: src/messages/request.rs:50:52: range end index 17 out of range for slice of length 16
// rerun: cd /verif && ./check C06 --replay /verif/evidence/replay/C06-c06_frame_parse_vs_reference_20.rs
/// Test generated for harness `frame::verif_kani::c06_frame_parse_vs_reference_20` 
///
/// Check for `assertion`: "This is a placeholder message; Kani doesn't support message formatted at runtime"

#[test]
fn kani_concrete_playback_c06_frame_parse_vs_reference_20_10641739253935258083() {
    let concrete_vals: Vec<Vec<u8>> = vec![
        // 0
        vec![0],
        // 0
        vec![0],
        // 0
        vec![0],
        // 13
        vec![13],
        // 6
        vec![6],
        // 111
        vec![111],
        // 114
        vec![114],
        // 114
        vec![114],
        // 101
        vec![101],
        // 0
        vec![0],
        // 0
        vec![0],
        // 0
        vec![0],
        // 0
        vec![0],
        // 0
        vec![0],
        // 0
        vec![0],
        // 0
        vec![0],
        // 0
        vec![0],
        // 99
        vec![99],
        // 111
        vec![111],
        // 255
        vec![255],
        // 16ul
        vec![16, 0, 0, 0, 0, 0, 0, 0],
    ];
    kani::concrete_playback_run(concrete_vals, c06_frame_parse_vs_reference_20);
}
