// Replay of a solver counterexample (Kani concrete playback).
// property: C08
// harness-file: messages__handshake.rs
// harness: c08_handshake_validate_spec
// config: 
// failed-check: accepted only when hash and expected id match @ ../vh/messages__handshake.rs:70:19 in function messages::handshake::verif_kani::c08_handshake_validate_spec
// native-result: /var/tmp/rdest-verif.C08.1325/cfg-default/vh/messages__handshake.rs:70:19: accepted only when hash and expected id match
// rerun: cd /verif && ./check C08 --replay /verif/evidence/replay/C08-c08_handshake_validate_spec.rs
/// Test generated for harness `messages::handshake::verif_kani::c08_handshake_validate_spec` 
///
/// Check for `assertion`: ""accepted only when hash and expected id match""

#[test]
fn kani_concrete_playback_c08_handshake_validate_spec_1421183467625716507() {
    let concrete_vals: Vec<Vec<u8>> = vec![
        // 0
        vec![0],
        // 255
        vec![255],
        // 255
        vec![255],
        // 255
        vec![255],
        // 255
        vec![255],
        // 255
        vec![255],
        // 255
        vec![255],
        // 255
        vec![255],
        // 0
        vec![0],
        // 0
        vec![0],
        // 0
        vec![0],
        // 0
        vec![0],
        // 0
        vec![0],
        // 0
        vec![0],
        // 0
        vec![0],
        // 192
        vec![192],
        // 63
        vec![63],
        // 192
        vec![192],
        // 63
        vec![63],
        // 0
        vec![0],
        // 63
        vec![63],
        // 63
        vec![63],
        // 63
        vec![63],
        // 63
        vec![63],
        // 63
        vec![63],
        // 63
        vec![63],
        // 63
        vec![63],
        // 63
        vec![63],
        // 63
        vec![63],
        // 63
        vec![63],
        // 63
        vec![63],
        // 63
        vec![63],
        // 63
        vec![63],
        // 63
        vec![63],
        // 63
        vec![63],
        // 63
        vec![63],
        // 63
        vec![63],
        // 63
        vec![63],
        // 63
        vec![63],
        // 63
        vec![63],
        // 1
        vec![1],
        // 255
        vec![255],
        // 255
        vec![255],
        // 255
        vec![255],
        // 255
        vec![255],
        // 255
        vec![255],
        // 255
        vec![255],
        // 255
        vec![255],
        // 0
        vec![0],
        // 0
        vec![0],
        // 0
        vec![0],
        // 0
        vec![0],
        // 0
        vec![0],
        // 0
        vec![0],
        // 0
        vec![0],
        // 192
        vec![192],
        // 63
        vec![63],
        // 192
        vec![192],
        // 63
        vec![63],
        // 0
        vec![0],
        // 1
        vec![1],
        // 63
        vec![63],
        // 63
        vec![63],
        // 63
        vec![63],
        // 63
        vec![63],
        // 63
        vec![63],
        // 63
        vec![63],
        // 63
        vec![63],
        // 63
        vec![63],
        // 63
        vec![63],
        // 63
        vec![63],
        // 63
        vec![63],
        // 63
        vec![63],
        // 63
        vec![63],
        // 63
        vec![63],
        // 63
        vec![63],
        // 63
        vec![63],
        // 63
        vec![63],
        // 63
        vec![63],
        // 63
        vec![63],
        // 63
        vec![63],
    ];
    kani::concrete_playback_run(concrete_vals, c08_handshake_validate_spec);
}
