// Replay of a solver counterexample (Kani concrete playback).
// property: C08
// harness-file: messages__handshake.rs
// harness: c08_handshake_validate_spec
// config: 
// failed-check: InvalidPeerId only for a different id @ ../vh/messages__handshake.rs:72:38 in function messages::handshake::verif_kani::c08_handshake_validate_spec
// failed-check: accepted only when hash and expected id match @ ../vh/messages__handshake.rs:70:19 in function messages::handshake::verif_kani::c08_handshake_validate_spec
// native-result: /var/tmp/rdest-verif.C08.16021/cfg-default/vh/messages__handshake.rs:72:38: InvalidPeerId only for a different id
// rerun: cd /verif && ./check C08 --replay /verif/evidence/replay/C08-c08_handshake_validate_spec.rs
/// Test generated for harness `messages::handshake::verif_kani::c08_handshake_validate_spec` 
///
/// Check for `assertion`: ""InvalidPeerId only for a different id""

#[test]
fn kani_concrete_playback_c08_handshake_validate_spec_7484633978586688796() {
    let concrete_vals: Vec<Vec<u8>> = vec![
        // 255
        vec![255],
        // 255
        vec![255],
        // 255
        vec![255],
        // 255
        vec![255],
        // 255
        vec![255],
        // 255
        vec![255],
        // 255
        vec![255],
        // 255
        vec![255],
        // 255
        vec![255],
        // 255
        vec![255],
        // 255
        vec![255],
        // 255
        vec![255],
        // 255
        vec![255],
        // 255
        vec![255],
        // 255
        vec![255],
        // 255
        vec![255],
        // 255
        vec![255],
        // 255
        vec![255],
        // 255
        vec![255],
        // 255
        vec![255],
        // 255
        vec![255],
        // 255
        vec![255],
        // 255
        vec![255],
        // 255
        vec![255],
        // 255
        vec![255],
        // 255
        vec![255],
        // 255
        vec![255],
        // 255
        vec![255],
        // 255
        vec![255],
        // 255
        vec![255],
        // 255
        vec![255],
        // 255
        vec![255],
        // 255
        vec![255],
        // 255
        vec![255],
        // 255
        vec![255],
        // 255
        vec![255],
        // 255
        vec![255],
        // 255
        vec![255],
        // 255
        vec![255],
        // 255
        vec![255],
        // 127
        vec![127],
        // 127
        vec![127],
        // 127
        vec![127],
        // 127
        vec![127],
        // 127
        vec![127],
        // 127
        vec![127],
        // 127
        vec![127],
        // 127
        vec![127],
        // 127
        vec![127],
        // 127
        vec![127],
        // 127
        vec![127],
        // 127
        vec![127],
        // 127
        vec![127],
        // 127
        vec![127],
        // 127
        vec![127],
        // 127
        vec![127],
        // 127
        vec![127],
        // 127
        vec![127],
        // 127
        vec![127],
        // 127
        vec![127],
        // 1
        vec![1],
        // 127
        vec![127],
        // 127
        vec![127],
        // 127
        vec![127],
        // 127
        vec![127],
        // 127
        vec![127],
        // 127
        vec![127],
        // 127
        vec![127],
        // 127
        vec![127],
        // 127
        vec![127],
        // 127
        vec![127],
        // 127
        vec![127],
        // 127
        vec![127],
        // 127
        vec![127],
        // 127
        vec![127],
        // 127
        vec![127],
        // 127
        vec![127],
        // 127
        vec![127],
        // 127
        vec![127],
        // 127
        vec![127],
        // 127
        vec![127],
    ];
    kani::concrete_playback_run(concrete_vals, c08_handshake_validate_spec);
}
