// Replay of a solver counterexample (Kani concrete playback).
// property: C20
// harness-file: peer_handler.rs
// harness: c20_keep_alive_tick_while_downloading_closes
// config: 
// failed-check: third silent tick closes the connection @ ../vh/peer_handler.rs:233:9 in function peer_handler::verif_kani::keep_alive_tick_in
// native-result: /var/tmp/rdest-verif.C20.31356/cfg-default/vh/peer_handler.rs:233:9: third silent tick closes the connection
// rerun: cd /verif && ./check C20 --replay /verif/evidence/replay/C20-c20_keep_alive_tick_while_downloading_closes.rs
/// Test generated for harness `peer_handler::verif_kani::c20_keep_alive_tick_while_downloading_closes` 
///
/// Check for `assertion`: ""third silent tick closes the connection""

#[test]
fn kani_concrete_playback_c20_keep_alive_tick_while_downloading_closes_2027439648259723768() {
    let concrete_vals: Vec<Vec<u8>> = vec![
    ];
    kani::concrete_playback_run(concrete_vals, c20_keep_alive_tick_while_downloading_closes);
}
