// Replay of a solver counterexample (Kani concrete playback).
// property: C20
// harness-file: peer_handler.rs
// harness: c20_frame_cancel_resets_silence_counter
// config: 
// failed-check: any other message resets the silence counter @ ../vh/peer_handler.rs:332:13 in function peer_handler::verif_kani::frame_step
// native-result: /var/tmp/rdest-verif.C20.10105/cfg-default/vh/peer_handler.rs:332:13: any other message resets the silence counter
// rerun: cd /verif && ./check C20 --replay /verif/evidence/replay/C20-c20_frame_cancel_resets_silence_counter.rs
/// Test generated for harness `peer_handler::verif_kani::c20_frame_cancel_resets_silence_counter` 
///
/// Check for `assertion`: ""any other message resets the silence counter""

#[test]
fn kani_concrete_playback_c20_frame_cancel_resets_silence_counter_10016955977658682273() {
    let concrete_vals: Vec<Vec<u8>> = vec![
        // 2
        vec![2, 0, 0, 0],
        // 0
        vec![0, 0, 0, 0],
        // 0
        vec![0, 0, 0, 0],
        // 0
        vec![0, 0, 0, 0],
    ];
    kani::concrete_playback_run(concrete_vals, c20_frame_cancel_resets_silence_counter);
}
