// Replay of a solver counterexample (Kani concrete playback).
// property: C14
// harness-file: peer.rs
// harness: c14_bitfield_unchoke_rule
// config: 
// failed-check: a peer is unchoked on Bitfield only while fewer than ten regular slots are in use (and only if it was choked) @ ../vh/peer.rs:139:5 in function peer::verif_kani::c14_bitfield_unchoke_rule
// native-result: /var/tmp/rdest-verif.C14.27669/cfg-default/vh/peer.rs:139:5: a peer is unchoked on Bitfield only while fewer than ten regular slots are in use (and only if it was choked)
// rerun: cd /verif && ./check C14 --replay /verif/evidence/replay/C14-c14_bitfield_unchoke_rule.rs
/// Test generated for harness `peer::verif_kani::c14_bitfield_unchoke_rule` 
///
/// Check for `assertion`: ""a peer is unchoked on Bitfield only while fewer than ten regular slots are in use (and only if it was choked)""

#[test]
fn kani_concrete_playback_c14_bitfield_unchoke_rule_14564291994794273739() {
    let concrete_vals: Vec<Vec<u8>> = vec![
        // 1
        vec![1],
        // 1
        vec![1],
        // 1
        vec![1],
        // 1
        vec![1],
        // 1ul
        vec![1, 0, 0, 0, 0, 0, 0, 0],
        // 1
        vec![1],
        // 255
        vec![255],
        // 255
        vec![255],
        // 255
        vec![255],
        // 255
        vec![255],
        // 255
        vec![255],
        // 255
        vec![255],
        // 255
        vec![255],
        // 255
        vec![255],
        // 255
        vec![255],
        // 255
        vec![255],
        // 255
        vec![255],
        // 255
        vec![255],
        // 255
        vec![255],
        // 255
        vec![255],
        // 255
        vec![255],
        // 255
        vec![255],
        // 255
        vec![255],
        // 255
        vec![255],
        // 255
        vec![255],
        // 255
        vec![255],
        // 1
        vec![1],
        // 1
        vec![1],
        // 1
        vec![1],
        // 1
        vec![1],
        // 1
        vec![1],
        // 1
        vec![1],
        // 18446744073709551615ul
        vec![255, 255, 255, 255, 255, 255, 255, 255],
        // 10ul
        vec![10, 0, 0, 0, 0, 0, 0, 0],
    ];
    kani::concrete_playback_run(concrete_vals, c14_bitfield_unchoke_rule);
}
