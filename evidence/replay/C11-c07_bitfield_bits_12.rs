// Replay of a solver counterexample (Kani concrete playback).
// property: C11
// harness-file: messages__bitfield.rs
// harness: c07_bitfield_bits_12
// config: 
// failed-check: piece i <-> bit (i mod 8) from the MSB of byte i/8 @ ../vh/messages__bitfield.rs:16:13 in function messages::bitfield::verif_kani::bitfield_bits_n::<12>
// failed-check: spare bits are zero @ ../vh/messages__bitfield.rs:18:13 in function messages::bitfield::verif_kani::bitfield_bits_n::<12>
// native-result: /var/tmp/rdest-verif.C11.27535/cfg-default/vh/messages__bitfield.rs:16:13: piece i <-> bit (i mod 8) from the MSB of byte i/8
// rerun: cd /verif && ./check C11 --replay /verif/evidence/replay/C11-c07_bitfield_bits_12.rs
/// Test generated for harness `messages::bitfield::verif_kani::c07_bitfield_bits_12` 
///
/// Check for `assertion`: ""piece i <-> bit (i mod 8) from the MSB of byte i/8""

#[test]
fn kani_concrete_playback_c07_bitfield_bits_12_3713328245706021450() {
    let concrete_vals: Vec<Vec<u8>> = vec![
        // 1
        vec![1],
        // 1
        vec![1],
        // 1
        vec![1],
        // 1
        vec![1],
        // 1
        vec![1],
        // 1
        vec![1],
        // 1
        vec![1],
        // 1
        vec![1],
        // 1
        vec![1],
        // 1
        vec![1],
        // 1
        vec![1],
        // 1
        vec![1],
        // 18446744073709551615ul
        vec![255, 255, 255, 255, 255, 255, 255, 255],
        // 1
        vec![1],
        // 1
        vec![1],
        // 1
        vec![1],
        // 1
        vec![1],
        // 1
        vec![1],
        // 1
        vec![1],
        // 1
        vec![1],
        // 1
        vec![1],
        // 1
        vec![1],
        // 1
        vec![1],
        // 1
        vec![1],
        // 1
        vec![1],
        // 0ul
        vec![0, 0, 0, 0, 0, 0, 0, 0],
    ];
    kani::concrete_playback_run(concrete_vals, c07_bitfield_bits_12);
}
