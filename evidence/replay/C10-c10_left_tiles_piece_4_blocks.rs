// Replay of a solver counterexample (Kani concrete playback).
// property: C10
// harness-file: peer_handler.rs
// harness: c10_left_tiles_piece_4_blocks
// config: 
// failed-check: ceil(len / 16 KiB) blocks @ ../vh/peer_handler.rs:46:5 in function peer_handler::verif_kani::left_tiles::<3>
// failed-check: attempt to subtract with overflow @ src/peer_handler.rs:86:32 in function peer_handler::PieceRx::left
// native-result: /var/tmp/rdest-verif.C10.25449/cfg-default/vh/peer_handler.rs:46:5: ceil(len / 16 KiB) blocks
// rerun: cd /verif && ./check C10 --replay /verif/evidence/replay/C10-c10_left_tiles_piece_4_blocks.rs
/// Test generated for harness `peer_handler::verif_kani::c10_left_tiles_piece_4_blocks` 
///
/// Check for `assertion`: ""ceil(len / 16 KiB) blocks""

#[test]
fn kani_concrete_playback_c10_left_tiles_piece_4_blocks_2111302933613451917() {
    let concrete_vals: Vec<Vec<u8>> = vec![
        // 1ul
        vec![1, 0, 0, 0, 0, 0, 0, 0],
    ];
    kani::concrete_playback_run(concrete_vals, c10_left_tiles_piece_4_blocks);
}
