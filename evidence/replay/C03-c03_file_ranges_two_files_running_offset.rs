// Replay of a solver counterexample (Kani concrete playback).
// property: C03
// harness-file: metainfo.rs
// harness: c03_file_ranges_two_files_running_offset
// config: 
// failed-check: first file ends at its length @ ../vh/metainfo.rs:381:5 in function metainfo::verif_kani::file_ranges_two_files
// failed-check: second file ends at the sum of the lengths @ ../vh/metainfo.rs:383:5 in function metainfo::verif_kani::file_ranges_two_files
// native-result: /var/tmp/rdest-verif.C03.19621/cfg-default/vh/metainfo.rs:381:5: first file ends at its length
// rerun: cd /verif && ./check C03 --replay /verif/evidence/replay/C03-c03_file_ranges_two_files_running_offset.rs
/// Test generated for harness `metainfo::verif_kani::c03_file_ranges_two_files_running_offset` 
///
/// Check for `assertion`: ""first file ends at its length""

#[test]
fn kani_concrete_playback_c03_file_ranges_two_files_running_offset_7513887538405234220() {
    let concrete_vals: Vec<Vec<u8>> = vec![
        // 4293918722
        vec![2, 0, 240, 255],
        // 4293918756
        vec![36, 0, 240, 255],
        // 4293951488
        vec![0, 128, 240, 255],
        // 4293918721
        vec![1, 0, 240, 255],
    ];
    kani::concrete_playback_run(concrete_vals, c03_file_ranges_two_files_running_offset);
}
