// Replay of a solver counterexample (Kani concrete playback).
// property: C12
// harness-file: peer.rs
// harness: c12_step_choke
// config: 
// failed-check: a piece once owned stays owned @ ../vh/peer.rs:278:13 in function peer::verif_kani::manager_step
// native-result: /var/tmp/rdest-verif.C12.23649/cfg-default/vh/peer.rs:278:13: a piece once owned stays owned
// rerun: cd /verif && ./check C12 --replay /verif/evidence/replay/C12-c12_step_choke.rs
/// Test generated for harness `peer::verif_kani::c12_step_choke` 
///
/// Check for `assertion`: ""a piece once owned stays owned""

#[test]
fn kani_concrete_playback_c12_step_choke_5945920581900540423() {
    let concrete_vals: Vec<Vec<u8>> = vec![
        // 255
        vec![255],
        // 253
        vec![253],
        // 1ul
        vec![1, 0, 0, 0, 0, 0, 0, 0],
        // 254
        vec![254],
        // 1
        vec![1],
        // 1
        vec![1],
        // 1
        vec![1],
        // 1
        vec![1],
        // 2ul
        vec![2, 0, 0, 0, 0, 0, 0, 0],
        // 1
        vec![1],
        // 255
        vec![255],
        // 255
        vec![255],
        // 255
        vec![255],
        // 255
        vec![255],
        // 255
        vec![255],
        // 255
        vec![255],
        // 255
        vec![255],
        // 255
        vec![255],
        // 255
        vec![255],
        // 255
        vec![255],
        // 255
        vec![255],
        // 255
        vec![255],
        // 255
        vec![255],
        // 255
        vec![255],
        // 255
        vec![255],
        // 255
        vec![255],
        // 255
        vec![255],
        // 255
        vec![255],
        // 255
        vec![255],
        // 255
        vec![255],
        // 1
        vec![1],
        // 1
        vec![1],
        // 1
        vec![1],
        // 0
        vec![0],
        // 1
        vec![1],
        // 1
        vec![1],
        // 1
        vec![1],
        // 1
        vec![1],
        // 1
        vec![1],
        // 1ul
        vec![1, 0, 0, 0, 0, 0, 0, 0],
        // 1
        vec![1],
        // 255
        vec![255],
        // 255
        vec![255],
        // 255
        vec![255],
        // 255
        vec![255],
        // 255
        vec![255],
        // 255
        vec![255],
        // 255
        vec![255],
        // 255
        vec![255],
        // 255
        vec![255],
        // 255
        vec![255],
        // 255
        vec![255],
        // 255
        vec![255],
        // 255
        vec![255],
        // 255
        vec![255],
        // 255
        vec![255],
        // 255
        vec![255],
        // 255
        vec![255],
        // 255
        vec![255],
        // 255
        vec![255],
        // 255
        vec![255],
        // 1
        vec![1],
        // 1
        vec![1],
        // 1
        vec![1],
        // 0
        vec![0],
        // 1
        vec![1],
        // 1
        vec![1],
    ];
    kani::concrete_playback_run(concrete_vals, c12_step_choke);
}
