// Replay of a solver counterexample (Kani concrete playback).
// property: C06
// harness-file: connection.rs
// harness: c06_recv_frame_delivers_buffered_11
// failed-check: recv_frame goes to the socket although a complete (or fatally malformed) frame is already buffered @ ../vh/connection.rs:125:13 in function connection::verif_kani::recv_delivers_buffered::<11>
// native-result: /var/tmp/rdest-verif.C06.11335/vh/connection.rs:125:13: recv_frame goes to the socket although a complete (or fatally malformed) frame is already buffered
// rerun: cd /verif && ./check C06 --replay /verif/evidence/replay/C06-c06_recv_frame_delivers_buffered_11.rs
/// Test generated for harness `connection::verif_kani::c06_recv_frame_delivers_buffered_11` 
///
/// Check for `assertion`: ""recv_frame goes to the socket although a complete (or fatally malformed) frame is already buffered""

#[test]
fn kani_concrete_playback_c06_recv_frame_delivers_buffered_11_4478240586119981248() {
    let concrete_vals: Vec<Vec<u8>> = vec![
        // 0
        vec![0],
        // 0
        vec![0],
        // 0
        vec![0],
        // 1
        vec![1],
        // 16
        vec![16],
        // 0
        vec![0],
        // 0
        vec![0],
        // 0
        vec![0],
        // 2
        vec![2],
        // 84
        vec![84],
        // 116
        vec![116],
        // 10ul
        vec![10, 0, 0, 0, 0, 0, 0, 0],
    ];
    kani::concrete_playback_run(concrete_vals, c06_recv_frame_delivers_buffered_11);
}
