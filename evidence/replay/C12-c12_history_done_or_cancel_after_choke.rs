// Replay of a solver counterexample (Kani concrete playback).
// property: C12
// harness-file: peer.rs
// harness: c12_history_done_or_cancel_after_choke
// config: 
// failed-check: Piece downloaded but not requested (manager panic: the peer record lost its assignment on Choke) @ ../vh/peer.rs:467:17 in function peer::verif_kani::c12_history_done_or_cancel_after_choke
// native-result: /var/tmp/rdest-verif.C12.26453/cfg-default/vh/peer.rs:467:17: Piece downloaded but not requested (manager panic: the peer record lost its assignment on Choke)
// rerun: cd /verif && ./check C12 --replay /verif/evidence/replay/C12-c12_history_done_or_cancel_after_choke.rs
/// Test generated for harness `peer::verif_kani::c12_history_done_or_cancel_after_choke` 
///
/// Check for `assertion`: "Piece downloaded but not requested (manager panic: the peer record lost its assignment on Choke)"

#[test]
fn kani_concrete_playback_c12_history_done_or_cancel_after_choke_5829227524108860294() {
    let concrete_vals: Vec<Vec<u8>> = vec![
        // 1
        vec![1],
        // 1
        vec![1],
        // 0
        vec![0],
        // 1
        vec![1],
        // 1ul
        vec![1, 0, 0, 0, 0, 0, 0, 0],
        // 0
        vec![0],
    ];
    kani::concrete_playback_run(concrete_vals, c12_history_done_or_cancel_after_choke);
}
