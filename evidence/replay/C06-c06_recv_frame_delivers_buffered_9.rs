// Replay of a solver counterexample (Kani concrete playback).
// property: C06
// harness-file: connection.rs
// harness: c06_recv_frame_delivers_buffered_9
// failed-check: recv_frame goes to the socket although a complete (or fatally malformed) frame is already buffered @ ../vh/connection.rs:145:13 in function connection::verif_kani::recv_delivers_buffered::<9>
// native-result: /var/tmp/rdest-verif.C06.26495/vh/connection.rs:145:13: recv_frame goes to the socket although a complete (or fatally malformed) frame is already buffered
// rerun: cd /verif && ./check C06 --replay /verif/evidence/replay/C06-c06_recv_frame_delivers_buffered_9.rs
/// Test generated for harness `connection::verif_kani::c06_recv_frame_delivers_buffered_9` 
///
/// Check for `assertion`: ""recv_frame goes to the socket although a complete (or fatally malformed) frame is already buffered""

#[test]
fn kani_concrete_playback_c06_recv_frame_delivers_buffered_9_447194622643528208() {
    let concrete_vals: Vec<Vec<u8>> = vec![
        // 0
        vec![0],
        // 0
        vec![0],
        // 0
        vec![0],
        // 8
        vec![8],
        // 7
        vec![7],
        // 0
        vec![0],
        // 0
        vec![0],
        // 0
        vec![0],
        // 0
        vec![0],
        // 5ul
        vec![5, 0, 0, 0, 0, 0, 0, 0],
    ];
    kani::concrete_playback_run(concrete_vals, c06_recv_frame_delivers_buffered_9);
}
