// Replay of a solver counterexample (Kani concrete playback).
// property: C07
// harness-file: messages__bitfield.rs
// harness: c07_bitfield_to_vec_spec
// config: 
// failed-check: wrong byte count rejected @ ../vh/messages__bitfield.rs:74:9 in function messages::bitfield::verif_kani::c07_bitfield_to_vec_spec
// native-result: /var/tmp/rdest-verif.C07.22921/cfg-default/vh/messages__bitfield.rs:74:9: wrong byte count rejected
// rerun: cd /verif && ./check C07 --replay /verif/evidence/replay/C07-c07_bitfield_to_vec_spec.rs
/// Test generated for harness `messages::bitfield::verif_kani::c07_bitfield_to_vec_spec` 
///
/// Check for `assertion`: ""wrong byte count rejected""

#[test]
fn kani_concrete_playback_c07_bitfield_to_vec_spec_1470347217216880583() {
    let concrete_vals: Vec<Vec<u8>> = vec![
        // 255
        vec![255],
        // 255
        vec![255],
        // 255
        vec![255],
        // 0ul
        vec![0, 0, 0, 0, 0, 0, 0, 0],
    ];
    kani::concrete_playback_run(concrete_vals, c07_bitfield_to_vec_spec);
}
