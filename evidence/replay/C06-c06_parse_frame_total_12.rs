// Replay of a solver counterexample (Kani concrete playback).
// property: C06
// harness-file: connection.rs
// harness: c06_parse_frame_total_12
// failed-check: assertion failed: consumed == 0 @ ../vh/connection.rs:68:36 in function connection::verif_kani::parse_frame_total::<12>
// native-result: /var/tmp/rdest-verif.C06.25483/vh/connection.rs:68:36: assertion failed: consumed == 0
// rerun: cd /verif && ./check C06 --replay /verif/evidence/replay/C06-c06_parse_frame_total_12.rs
/// Test generated for harness `connection::verif_kani::c06_parse_frame_total_12` 
///
/// Check for `assertion`: "assertion failed: consumed == 0"

#[test]
fn kani_concrete_playback_c06_parse_frame_total_12_15168376384616161550() {
    let concrete_vals: Vec<Vec<u8>> = vec![
        // 0
        vec![0],
        // 0
        vec![0],
        // 0
        vec![0],
        // 1
        vec![1],
        // 32
        vec![32],
        // 19
        vec![19],
        // 0
        vec![0],
        // 0
        vec![0],
        // 3
        vec![3],
        // 84
        vec![84],
        // 255
        vec![255],
        // 255
        vec![255],
        // 11ul
        vec![11, 0, 0, 0, 0, 0, 0, 0],
    ];
    kani::concrete_playback_run(concrete_vals, c06_parse_frame_total_12);
}
