// Replay of a solver counterexample (Kani concrete playback).
// property: C14
// harness-file: session.rs
// harness: c14_unchoked_num_counts_regular_slots_3
// config: 
// failed-check: the number of slots reported as in use is at least the number of regularly unchoked peers @ ../vh/session.rs:130:5 in function session::verif_kani::unchoked_num_spec
// native-result: /var/tmp/rdest-verif.C14.29606/cfg-default/vh/session.rs:130:5: the number of slots reported as in use is at least the number of regularly unchoked peers
// rerun: cd /verif && ./check C14 --replay /verif/evidence/replay/C14-c14_unchoked_num_counts_regular_slots_3.rs
/// Test generated for harness `session::verif_kani::c14_unchoked_num_counts_regular_slots_3` 
///
/// Check for `assertion`: ""the number of slots reported as in use is at least the number of regularly unchoked peers""

#[test]
fn kani_concrete_playback_c14_unchoked_num_counts_regular_slots_3_15182678042849282709() {
    let concrete_vals: Vec<Vec<u8>> = vec![
        // 1
        vec![1],
        // 1
        vec![1],
        // 1
        vec![1],
        // 0
        vec![0],
        // 1
        vec![1],
        // 0
        vec![0],
        // 0
        vec![0],
        // 1
        vec![1],
        // 0
        vec![0],
    ];
    kani::concrete_playback_run(concrete_vals, c14_unchoked_num_counts_regular_slots_3);
}
