// Replay of a solver counterexample (Kani concrete playback).
// property: C09
// harness-file: peer.rs
// harness: c09_manager_serves_only_unchoked_owned
// config: 
// failed-check: only while the peer is unchoked by us @ ../vh/peer.rs:110:13 in function peer::verif_kani::c09_manager_serves_only_unchoked_owned
// native-result: /var/tmp/rdest-verif.C09.10188/cfg-default/vh/peer.rs:110:13: only while the peer is unchoked by us
// rerun: cd /verif && ./check C09 --replay /verif/evidence/replay/C09-c09_manager_serves_only_unchoked_owned.rs
/// Test generated for harness `peer::verif_kani::c09_manager_serves_only_unchoked_owned` 
///
/// Check for `assertion`: ""only while the peer is unchoked by us""

#[test]
fn kani_concrete_playback_c09_manager_serves_only_unchoked_owned_14278953780508065000() {
    let concrete_vals: Vec<Vec<u8>> = vec![
        // 254
        vec![254],
        // 248
        vec![248],
        // 254
        vec![254],
        // 1
        vec![1],
        // 0
        vec![0],
        // 1
        vec![1],
        // 0
        vec![0],
        // 1
        vec![1],
        // 255
        vec![255],
        // 255
        vec![255],
        // 255
        vec![255],
        // 255
        vec![255],
        // 255
        vec![255],
        // 255
        vec![255],
        // 255
        vec![255],
        // 255
        vec![255],
        // 255
        vec![255],
        // 255
        vec![255],
        // 255
        vec![255],
        // 255
        vec![255],
        // 255
        vec![255],
        // 255
        vec![255],
        // 255
        vec![255],
        // 255
        vec![255],
        // 255
        vec![255],
        // 255
        vec![255],
        // 255
        vec![255],
        // 255
        vec![255],
        // 1
        vec![1],
        // 1
        vec![1],
        // 1
        vec![1],
        // 1
        vec![1],
        // 1
        vec![1],
        // 2ul
        vec![2, 0, 0, 0, 0, 0, 0, 0],
    ];
    kani::concrete_playback_run(concrete_vals, c09_manager_serves_only_unchoked_owned);
}
