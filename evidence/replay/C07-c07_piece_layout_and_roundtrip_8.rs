// Replay of a solver counterexample (Kani concrete playback).
// property: C07
// harness-file: messages__piece.rs
// harness: c07_piece_layout_and_roundtrip_8
// config: 
// failed-check: piece bytes did not decode to Piece @ ../vh/messages__piece.rs:41:14 in function messages::piece::verif_kani::piece_roundtrip::<8>
// native-result: /var/tmp/rdest-verif.C07.31424/cfg-default/vh/messages__piece.rs:41:14: piece bytes did not decode to Piece
// rerun: cd /verif && ./check C07 --replay /verif/evidence/replay/C07-c07_piece_layout_and_roundtrip_8.rs
/// Test generated for harness `messages::piece::verif_kani::c07_piece_layout_and_roundtrip_8` 
///
/// Check for `assertion`: "piece bytes did not decode to Piece"

#[test]
fn kani_concrete_playback_c07_piece_layout_and_roundtrip_8_14416648421219513755() {
    let concrete_vals: Vec<Vec<u8>> = vec![
        // 4294967295
        vec![255, 255, 255, 255],
        // 4294967295
        vec![255, 255, 255, 255],
        // 0ul
        vec![0, 0, 0, 0, 0, 0, 0, 0],
        // 255
        vec![255],
        // 255
        vec![255],
        // 255
        vec![255],
        // 255
        vec![255],
        // 255
        vec![255],
        // 255
        vec![255],
        // 255
        vec![255],
        // 255
        vec![255],
        // 18446744073709551615ul
        vec![255, 255, 255, 255, 255, 255, 255, 255],
    ];
    kani::concrete_playback_run(concrete_vals, c07_piece_layout_and_roundtrip_8);
}
