// Replay of a solver counterexample (Kani concrete playback).
// property: C16
// harness-file: bcodec__bdecoder.rs
// harness: c16_parse_int_exact_3
// config: 
// failed-check: an integer is accepted only in canonical form terminated by e @ ../vh/bcodec__bdecoder.rs:204:13 in function bcodec::bdecoder::verif_kani::parse_int_spec::<3>
// native-result: /var/tmp/rdest-verif.C16.2562/cfg-default/vh/bcodec__bdecoder.rs:204:13: an integer is accepted only in canonical form terminated by e
// rerun: cd /verif && ./check C16 --replay /verif/evidence/replay/C16-c16_parse_int_exact_3.rs
/// Test generated for harness `bcodec::bdecoder::verif_kani::c16_parse_int_exact_3` 
///
/// Check for `assertion`: ""an integer is accepted only in canonical form terminated by e""

#[test]
fn kani_concrete_playback_c16_parse_int_exact_3_6358810012173532546() {
    let concrete_vals: Vec<Vec<u8>> = vec![
        // 45
        vec![45],
        // 48
        vec![48],
        // 101
        vec![101],
        // 3ul
        vec![3, 0, 0, 0, 0, 0, 0, 0],
    ];
    kani::concrete_playback_run(concrete_vals, c16_parse_int_exact_3);
}
