// Replay of a solver counterexample (Kani concrete playback).
// property: C12
// harness-file: peer.rs
// harness: c12_step_unchoke
// config: 
// failed-check: a piece stays marked as being fetched although no connected, non-choking peer is asked for it (stale reservation) @ ../vh/peer.rs:283:5 in function peer::verif_kani::manager_step
// native-result: /var/tmp/rdest-verif.C12.30527/cfg-default/vh/peer.rs:283:5: a piece stays marked as being fetched although no connected, non-choking peer is asked for it (stale reservation)
// rerun: cd /verif && ./check C12 --replay /verif/evidence/replay/C12-c12_step_unchoke.rs
/// Test generated for harness `peer::verif_kani::c12_step_unchoke` 
///
/// Check for `assertion`: ""a piece stays marked as being fetched although no connected, non-choking peer is asked for it (stale reservation)""

#[test]
fn kani_concrete_playback_c12_step_unchoke_704448909269026194() {
    let concrete_vals: Vec<Vec<u8>> = vec![
        // 246
        vec![246],
        // 247
        vec![247],
        // 1ul
        vec![1, 0, 0, 0, 0, 0, 0, 0],
        // 253
        vec![253],
        // 1ul
        vec![1, 0, 0, 0, 0, 0, 0, 0],
        // 1
        vec![1],
        // 1
        vec![1],
        // 1
        vec![1],
        // 1
        vec![1],
        // 2ul
        vec![2, 0, 0, 0, 0, 0, 0, 0],
        // 0
        vec![0],
        // 1
        vec![1],
        // 1
        vec![1],
        // 1
        vec![1],
        // 0
        vec![0],
        // 1
        vec![1],
        // 0
        vec![0],
        // 0
        vec![0],
        // 0
        vec![0],
        // 1
        vec![1],
        // 1ul
        vec![1, 0, 0, 0, 0, 0, 0, 0],
        // 1
        vec![1],
        // 255
        vec![255],
        // 255
        vec![255],
        // 255
        vec![255],
        // 255
        vec![255],
        // 255
        vec![255],
        // 255
        vec![255],
        // 255
        vec![255],
        // 255
        vec![255],
        // 255
        vec![255],
        // 255
        vec![255],
        // 255
        vec![255],
        // 255
        vec![255],
        // 255
        vec![255],
        // 255
        vec![255],
        // 255
        vec![255],
        // 255
        vec![255],
        // 255
        vec![255],
        // 255
        vec![255],
        // 255
        vec![255],
        // 255
        vec![255],
        // 1
        vec![1],
        // 1
        vec![1],
        // 1
        vec![1],
        // 0
        vec![0],
        // 1
        vec![1],
        // 1
        vec![1],
        // 1
        vec![1],
        // 2ul
        vec![2, 0, 0, 0, 0, 0, 0, 0],
    ];
    kani::concrete_playback_run(concrete_vals, c12_step_unchoke);
}
