#!/bin/bash
# Offline setup: validate the environment models against the real crates (native tests) and
# warm nothing else -- every check rebuilds from /repo's working tree in its own scratch dir.
set -e
cd "$(dirname "$0")"
export CARGO_NET_OFFLINE=true
cargo kani --version
if [ -d env/validate ]; then
  (cd env/validate && cargo test --offline -- --test-threads=1 2>&1 | tail -5)
fi
echo "setup ok"
