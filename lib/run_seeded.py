#!/usr/bin/env python3
"""Run the registered checks against every seeded change in /verif/seeded/*:
apply the patch to /repo, run ./check for the targeted property (quick tier; `--tier thorough`
with --thorough), undo the patch, record the outcome in meta.json and seeded/RESULTS.md.
Usage: lib/run_seeded.py [--thorough] [--extra Cxx,Cyy] [seeded-id ...]"""
import json, os, subprocess, sys, time, re

VERIF = os.path.dirname(os.path.dirname(os.path.abspath(__file__)))
REPO = os.environ.get("VERIF_REPO", "/repo")  # a scratch worktree of /repo may be given instead
args = sys.argv[1:]
tier = "quick"
extra = []
ids = []
i = 0
while i < len(args):
    if args[i] == "--thorough":
        tier = "thorough"
    elif args[i] == "--extra":
        extra = args[i + 1].split(",")
        i += 1
    else:
        ids.append(args[i])
    i += 1
seeded = os.path.join(VERIF, "seeded")
if not ids:
    ids = sorted(d for d in os.listdir(seeded) if os.path.isdir(os.path.join(seeded, d)))


def sh(cmd, **kw):
    return subprocess.run(cmd, shell=True, stdout=subprocess.PIPE, stderr=subprocess.STDOUT, text=True, **kw)


assert sh("git -C %s status --porcelain -- src" % REPO).stdout.strip() == "", "/repo/src is not clean"
rows = []
for sid in ids:
    d = os.path.join(seeded, sid)
    meta = json.load(open(os.path.join(d, "meta.json")))
    props = [meta["property"]] + [p for p in extra if p != meta["property"]]
    r = sh("git -C %s apply %s" % (REPO, os.path.join(d, "patch.diff")))
    if r.returncode != 0:
        print(sid, "patch does not apply:", r.stdout)
        continue
    outcome = {}
    try:
        for p in props:
            t0 = time.time()
            r = sh("cd %s && ./check %s --tier %s" % (VERIF, p, tier))
            viol = re.findall(r"VIOLATION property=(\S+) replay=(\S+)", r.stdout)
            which = re.findall(r"violation in harness (\w+)", r.stdout)
            outcome[p] = {"exit": r.returncode, "violations": viol, "harnesses": sorted(set(which)), "wall_s": round(time.time() - t0)}
            print(sid, p, "exit", r.returncode, sorted(set(which)), flush=True)
    finally:
        sh("git -C %s checkout -- ." % REPO)
    det = [p for p, o in outcome.items() if o["exit"] == 1]
    meta["detected_by" if tier == "quick" else "detected_by_thorough"] = {"tier": tier, "checks": outcome, "caught": bool(det)}
    json.dump(meta, open(os.path.join(d, "meta.json"), "w"), indent=1)
    rows.append((sid, meta["property"], "caught" if det else ("inconclusive" if any(o["exit"] == 2 for o in outcome.values()) else "missed"),
                 ", ".join(h for o in outcome.values() for h in o["harnesses"])))
with open(os.path.join(seeded, "RESULTS-%s.md" % tier), "w") as fh:
    fh.write("| seeded change | property | %s tier | failing harness(es) |\n|---|---|---|---|\n" % tier)
    for r in rows:
        fh.write("| %s | %s | %s | %s |\n" % r)
print(open(os.path.join(seeded, "RESULTS-%s.md" % tier)).read())
