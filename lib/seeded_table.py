#!/usr/bin/env python3
"""Print the markdown table of all seeded changes and which checks caught them (from meta.json)."""
import json, os
seeded = os.path.join(os.path.dirname(os.path.dirname(os.path.abspath(__file__))), "seeded")
rows = []
for d in sorted(os.listdir(seeded)):
    mp = os.path.join(seeded, d, "meta.json")
    if not os.path.exists(mp):
        continue
    m = json.load(open(mp))
    det = m.get("detected_by")
    res = {}
    for key in ("detected_by", "detected_by_thorough"):
        dd = m.get(key)
        if isinstance(dd, dict):
            caught = [p for p, o in dd["checks"].items() if o["exit"] == 1]
            inconc = [p for p, o in dd["checks"].items() if o["exit"] == 2]
            hs = sorted({h for o in dd["checks"].values() for h in o["harnesses"]})
            res[dd["tier"]] = ("caught by %s (%s)" % (", ".join(caught), ", ".join(hs))) if caught else ("inconclusive" if inconc else "missed")
    rows.append((d, m["property"], m["breaks"], res.get("quick", "-"), res.get("thorough", "-")))
print("| seeded change | property | what it breaks | quick tier | thorough tier |")
print("|---|---|---|---|---|")
for r in rows:
    print("| %s | %s | %s | %s | %s |" % r)
