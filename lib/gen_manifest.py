#!/usr/bin/env python3
"""Regenerate /verif/MANIFEST.json from the harness annotations and lib/claims.json."""
import json, os, sys
sys.path.insert(0, os.path.dirname(os.path.abspath(__file__)))
import driver

VERIF = driver.VERIF
claims = json.load(open(os.path.join(VERIF, "lib", "claims.json")))
harnesses = driver.parse_harness_files()
props = [json.loads(l)["id"] for l in open(os.path.join(VERIF, "properties.jsonl")) if l.strip()]

checks, na = [], []
for pid in props:
    hs = [h for h in harnesses if pid in h["props"] and h["tier"] in ("quick", "thorough")]
    if not [h for h in hs if h["tier"] == "quick"]:
        hs = []
    c = claims.get(pid, {})
    if not hs or c.get("not_applicable"):
        na.append({"property_id": pid, "reason": c.get("not_applicable") or "no harness built yet for this property (work in progress; see DESIGN.md section 4)"})
        continue
    entry = {
        "property_id": pid,
        "quick_cmd": "./check %s --tier quick" % pid,
        "evidence_file": "/verif/evidence/%s.json" % pid,
        "replay_cmd_template": "./check %s --replay {path}" % pid,
        "engine": "kani",
        "level_claimed": {
            "category": "model_checking",
            "text": c.get("text", "bounded model checking of the real functions with Kani/CBMC"),
            "design_ref": c.get("design_ref", "DESIGN.md section 4, " + pid),
        },
        "level_note": c.get("note", "Kani 0.68/CBMC 6.11/cadical; environment models in /verif/env; bounds per harness in the evidence file"),
        "technique": c.get("technique", "bounded symbolic execution of the compiled Rust (Kani/CBMC), SAT-decided, counterexamples replayed natively"),
    }
    if any(h["tier"] == "thorough" for h in hs) or c.get("thorough", True):
        entry["thorough_cmd"] = "./check %s --tier thorough" % pid
    checks.append(entry)

manifest = {
    "version": 1,
    "setup_cmd": "./setup.sh",
    "hooks": {
        "guard": "cfg(kani)",
        "enable": "no source hooks are committed to /repo: each check copies /repo's working tree to a scratch dir and appends `#[cfg(kani)] #[path=...] mod verif_kani;` child modules there; cfg(kani) is set only by cargo-kani",
        "baseline_off_cmd": "cd /repo && cargo test --workspace --no-fail-fast --offline --lib --bins --tests",
        "source_commits": [],
        "add_only": True,
    },
    "engines": [
        {"name": "kani", "path": "/verif/check", "serves_properties": [c["property_id"] for c in checks],
         "kind_free_text": "Kani 0.68 (CBMC 6.11, cadical) bounded model checking of the real rdest functions compiled against the environment models in /verif/env; driver /verif/lib/driver.py"},
    ],
    "checks": checks,
    "not_applicable": na,
    "notes": "All results are bounded: 'held' means no violation for any input within the bounds listed in the evidence file. Fix commits in /repo are listed in known_findings.txt.",
}
json.dump(manifest, open(os.path.join(VERIF, "MANIFEST.json"), "w"), indent=1)
print("checks:", [c["property_id"] for c in checks])
print("not_applicable:", [n["property_id"] for n in na])
