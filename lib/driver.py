#!/usr/bin/env python3
"""Driver for the Kani-based checks of rdest.

    ./check <Cxx> [--tier quick|thorough] [--only SUBSTR] [--keep] [--replay PATH]

Per run: fresh scratch copy of /repo's working tree -> dependency swap to the environment
models -> harness injection (child modules, cfg(kani)) -> `cargo kani` -> result parsing ->
native replay of counterexamples -> evidence file.  Exit 0 = every selected harness held (or
failed only in a way listed in known_findings.txt), 1 = replayed violation, 2 = inconclusive
(timeout, OOM, compile error, vacuous harness, counterexample that does not replay).
"""
import json
import os
import re
import shutil
import subprocess
import sys
import time

VERIF = os.path.dirname(os.path.dirname(os.path.abspath(__file__)))
REPO = os.environ.get("VERIF_REPO", "/repo")
HARNESS_DIR = os.path.join(VERIF, "harness")
ENV_DIR = os.path.join(VERIF, "env")
EVIDENCE_DIR = os.path.join(VERIF, "evidence")
KNOWN_FILE = os.path.join(VERIF, "known_findings.txt")

TIER_TIMEOUT = {"quick": 600, "thorough": 3000}
MEM_LIMIT_KB = 24 * 1024 * 1024

MODEL_NOTES = [
    "tokio replaced by /verif/env/tokio-model (single-threaded waker-free channels, scripted sockets with nondeterministic read segmentation, virtual clock, in-memory tokio::fs, select! with nondeterministic start branch)",
    "rand replaced by /verif/env/rand-model (every draw nondeterministic)",
    "reqwest replaced by /verif/env/reqwest-model (scripted tracker outcomes)",
    "bytes replaced by /verif/env/bytes-model (Vec-backed BytesMut with the documented advance/put_slice contract)",
    "std::collections::HashMap replaced by /verif/env/std-model association list (insertion-order iteration)",
    "std::fs in extractor.rs/metainfo.rs replaced by /verif/env/std-model in-memory fs",
    "the five field-less message structs get one unobservable padding byte in the scratch copy (works around a CBMC 6.11 crash on zero-sized values held across an await)",
]


def log(msg):
    print(msg, flush=True)


# ------------------------------------------------------------------------------------------
# harness annotations


def harness_file_to_src(fname):
    """messages__request.rs -> src/messages/request.rs"""
    return "src/" + fname.replace("__", "/")


def parse_harness_files():
    """Return list of dicts, one per #[kani::proof] harness, with its // @key annotations."""
    out = []
    for fname in sorted(os.listdir(HARNESS_DIR)):
        if not fname.endswith(".rs") or fname.startswith("_"):
            continue
        path = os.path.join(HARNESS_DIR, fname)
        lines = open(path).read().split("\n")
        ann = {}
        for i, line in enumerate(lines):
            m = re.match(r"\s*// @(\w[\w-]*)\s*(.*)$", line)
            if m:
                ann.setdefault(m.group(1), []).append(m.group(2).strip())
                continue
            m = re.match(r"\s*(?:pub(?:\([a-z]+\))?\s+)?fn\s+(\w+)\s*\(", line)
            if m:
                if "prop" in ann:
                    out.append({
                        "name": m.group(1),
                        "file": fname,
                        "props": ann["prop"][0].split(),
                        "tier": ann.get("tier", ["quick"])[0],
                        "fn": ann.get("fn", []),
                        "bound": ann.get("bound", []),
                        "desc": " ".join(ann.get("desc", [])),
                        "assume": ann.get("assume", []),
                        "outside": ann.get("outside", []),
                        "known": ann.get("known", [None])[0],
                        "known_check": ann.get("known-check", []),
                        "config": " ".join(ann.get("config", [])).strip(),
                        "mem_gb": int(ann.get("mem", ["3"])[0]),
                        "line": i + 1,
                    })
                ann = {}
    return out


def load_known():
    """known_findings.txt: lines `finding: property=Cxx id=<id> <what fails>` and `fixed: ...`."""
    known = {}
    if not os.path.exists(KNOWN_FILE):
        return known
    for line in open(KNOWN_FILE):
        line = line.strip()
        m = re.match(r"finding:\s+property=(C\d+)\s+id=(\S+)\s+(.*)$", line)
        if m:
            known[m.group(2)] = {"property": m.group(1), "what": m.group(3)}
    return known


# ------------------------------------------------------------------------------------------
# scratch copy


def make_scratch(tag):
    root = os.environ.get("VERIF_SCRATCH", "/var/tmp")
    d = os.path.join(root, "rdest-verif.%s.%d" % (tag, os.getpid()))
    if os.path.exists(d):
        shutil.rmtree(d)
    os.makedirs(d)
    return d


def build_scratch(scratch, config=""):
    """Regenerate the crate to verify from /repo's *current working tree*.
    `config` = "NAME=VALUE ..." rewrites `pub const NAME: T = ...;` in src/constants.rs (scaled
    constants for harnesses annotated `@config`; stated in their bounds)."""
    crate = os.path.join(scratch, "rdest")
    os.makedirs(crate)
    shutil.copytree(os.path.join(REPO, "src"), os.path.join(crate, "src"))
    shutil.copy(os.path.join(REPO, "Cargo.lock"), crate)
    main_rs = os.path.join(crate, "src", "main.rs")
    if os.path.exists(main_rs):
        os.remove(main_rs)  # CLI glue (#[tokio::main], structopt): not part of any claim
    # environment models and harnesses are copied too, so a run is isolated from edits
    shutil.copytree(ENV_DIR, os.path.join(scratch, "env"), ignore=shutil.ignore_patterns("target"))
    shutil.copytree(HARNESS_DIR, os.path.join(scratch, "vh"))

    for item in config.split():
        name, val = item.split("=", 1)
        cp = os.path.join(crate, "src", "constants.rs")
        t = open(cp).read()
        t2, n = re.subn(r"(pub const %s: \w+ = )[^;]+;" % re.escape(name), r"\g<1>%s;" % val, t)
        if n != 1:
            raise RuntimeError("config: constant %s not found exactly once in src/constants.rs" % name)
        open(cp, "w").write(t2)

    toml = open(os.path.join(REPO, "Cargo.toml")).read()
    env = os.path.join(scratch, "env")
    subs = {
        "rand": 'rand = { package = "rand-model", path = "%s/rand-model" }' % env,
        "reqwest": 'reqwest = { package = "reqwest-model", path = "%s/reqwest-model" }' % env,
        "tokio": 'tokio = { package = "tokio-model", path = "%s/tokio-model" }' % env,
        "bytes": 'bytes = { package = "bytes-model", path = "%s/bytes-model" }' % env,
    }
    for dep, line in subs.items():
        toml, n = re.subn(r"(?m)^%s\s*=.*$" % dep, line, toml)
        if n != 1:
            raise RuntimeError("Cargo.toml: dependency %s not found exactly once" % dep)
    toml = re.sub(r"(?m)^structopt\s*=.*\n", "", toml)
    toml += '\nstd_model = { package = "std-model", path = "%s/std-model" }\n' % env
    toml += "\n[workspace]\n\n[lints.rust]\nunexpected_cfgs = { level = \"allow\", check-cfg = ['cfg(kani)'] }\n"
    open(os.path.join(crate, "Cargo.toml"), "w").write(toml)

    rewritten = []
    for dirpath, _, files in os.walk(os.path.join(crate, "src")):
        for f in files:
            if not f.endswith(".rs"):
                continue
            p = os.path.join(dirpath, f)
            t = open(p).read()
            o = t
            t = t.replace("use std::collections::HashMap;", "use std_model::HashMap;")
            t = t.replace("::std::collections::HashMap::new()", "::std_model::HashMap::new()")
            # CBMC 6.11 aborts ("l2_rename_rvalues case `struct' not handled") when a zero-sized
            # message value lives across an await point; give the five field-less messages one
            # unobservable padding byte in the scratch copy (data() never reads it).
            for zst in ("KeepAlive", "Choke", "Unchoke", "Interested", "NotInterested"):
                t = t.replace("pub struct %s {}" % zst, "pub struct %s { pub(crate) _verif_pad: u8 }" % zst)
                t = re.sub(r"\b%s \{\}" % zst, "%s { _verif_pad: 0 }" % zst, t)
            if f in ("extractor.rs", "metainfo.rs"):
                t = t.replace("use std::fs;", "use std_model::fs;")
                t = t.replace("use std::fs::File;", "use std_model::fs::File;")
            if t != o:
                open(p, "w").write(t)
                rewritten.append(os.path.relpath(p, crate))

    injected = []
    for fname in sorted(os.listdir(os.path.join(scratch, "vh"))):
        if not fname.endswith(".rs") or fname.startswith("_"):
            continue
        src = os.path.join(crate, harness_file_to_src(fname))
        if not os.path.exists(src):
            raise RuntimeError("harness %s has no source file %s in /repo" % (fname, harness_file_to_src(fname)))
        with open(src, "a") as fh:
            fh.write('\n#[cfg(kani)]\n#[path = "%s"]\npub(crate) mod verif_kani;\n' % os.path.join(scratch, "vh", fname))
        injected.append(harness_file_to_src(fname))
    return crate, rewritten, injected


def kani_env():
    env = dict(os.environ)
    env["CARGO_NET_OFFLINE"] = "true"
    env.pop("RUSTFLAGS", None)
    env.pop("RUSTUP_TOOLCHAIN", None)
    return env


def run_cmd(cmd, cwd, timeout, logfile, mem_kb=None):
    """Run under ulimit -s unlimited (CBMC needs it) and an address-space cap."""
    sh = "ulimit -s unlimited 2>/dev/null; ulimit -v %d 2>/dev/null; exec %s" % (
        mem_kb or MEM_LIMIT_KB,
        " ".join("'%s'" % c.replace("'", "'\\''") for c in cmd),
    )
    t0 = time.time()
    with open(logfile, "w") as fh:
        try:
            p = subprocess.run(["bash", "-c", sh], cwd=cwd, env=kani_env(), stdout=fh, stderr=subprocess.STDOUT, timeout=timeout)
            rc = p.returncode
        except subprocess.TimeoutExpired:
            rc = -9
            subprocess.run(["pkill", "-9", "-f", cwd], check=False)
    return rc, time.time() - t0


# ------------------------------------------------------------------------------------------
# result parsing

CHECK_RE = re.compile(
    r"Check (\d+): (\S+)\n\s+- Status: (\w+)\n\s+- Description: \"(.*?)\"\n(?:\s+- Location: (.*?)\n)?",
    re.S,
)


def parse_result(text):
    res = {"checks": 0, "failed": [], "covers": [], "verdict": None, "time": None, "unwind_fail": False}
    for m in CHECK_RE.finditer(text):
        num, name, status, desc, loc = m.groups()
        res["checks"] += 1
        desc = desc.strip('"')
        if ".cover." in name:
            res["covers"].append({"desc": desc, "status": status})
        elif status == "FAILURE":
            res["failed"].append({"name": name, "desc": desc, "loc": (loc or "").strip()})
            if "unwinding assertion" in desc:
                res["unwind_fail"] = True
    m = re.search(r"VERIFICATION:- (\w+)", text)
    if m:
        res["verdict"] = m.group(1)
    m = re.search(r"Verification Time: ([\d.]+)s", text)
    if m:
        res["time"] = float(m.group(1))
    if "CBMC failed" in text or "Status: ERROR" in text or "out of memory" in text.lower():
        res["verdict"] = "ERROR"
    if "CBMC timed out" in text or "timed out" in text.lower():
        if res["verdict"] != "SUCCESSFUL":
            res["verdict"] = "TIMEOUT"
    return res


def find_result_file(crate, h):
    d = os.path.join(crate, "result_output_dir")
    if not os.path.isdir(d):
        return None
    for f in os.listdir(d):
        if f.endswith("::" + h["name"]) or f == h["name"]:
            return os.path.join(d, f)
    return None


# ------------------------------------------------------------------------------------------
# replay

PLAYBACK_RE = re.compile(r"(/// Test generated for harness.*?\n#\[test\]\nfn (\w+)\(\) \{.*?\n\})", re.S)


def replay_counterexample(crate, scratch, h, failed, logdir):
    """Ask Kani for concrete values, turn them into a unit test, run it natively against the
    same sources.  Returns (reproduced: bool|None, replay_text, detail)."""
    logfile = os.path.join(logdir, "playback-gen-%s.log" % h["name"])
    cmd = ["cargo", "kani", "--harness", h["name"], "--exact" if False else "--output-format", "terse"]
    cmd = ["cargo", "kani", "--harness", h["name"], "--output-format", "terse", "-Z", "stubbing", "-Z", "concrete-playback", "--concrete-playback=print"]
    # kani-driver parses CBMC's JSON trace in memory: give this step a larger cap
    rc, _ = run_cmd(cmd, crate, TIER_TIMEOUT["thorough"], logfile, mem_kb=48 * 1024 * 1024)
    text = open(logfile).read()
    tests = PLAYBACK_RE.findall(text)
    # Kani de-duplicates generated tests by their concrete values, so the values that falsify
    # an assertion may be labelled with a cover property that the same trace satisfies: try the
    # tests labelled with a failing check first, then every other one.
    def rank(t):
        m = re.search(r"Check for `(\w+)`: \"(.*)\"", t[0])
        if m and m.group(1) != "cover":
            if any(f["desc"].strip('"') in m.group(2) or m.group(2).strip('"') in f["desc"] for f in failed):
                return 0
            return 1
        return 2
    tests = sorted(tests, key=rank)
    seen = set()
    uniq = []
    for body, name in tests:  # Kani prints the same test once per failing check it explains
        if name not in seen:
            seen.add(name)
            uniq.append((body, name))
    tests = uniq
    if not tests:
        return None, "", "Kani produced no concrete playback test (see %s)" % logfile
    vh = os.path.join(scratch, "vh", h["file"])
    with open(vh, "a") as fh:
        for body, name in tests:
            fh.write("\n" + body + "\n")
    last = ""
    for body, name in tests[:6]:
        logfile2 = os.path.join(logdir, "playback-run-%s-%s.log" % (h["name"], name[-6:]))
        rc, _ = run_cmd(["cargo", "kani", "playback", "-Z", "concrete-playback", "--", name], crate, 900, logfile2)
        out = open(logfile2).read()
        panic = ""
        m = re.search(r"panicked at ([^\n]*)\n([^\n]*)", out)
        if m:
            panic = (m.group(1) + " " + m.group(2)).strip()
        if re.search(r"test result: FAILED", out) and name in out:
            return True, body, panic or ("playback log: " + logfile2)
        last = "playback log: " + logfile2
    return False, "", "none of %d generated tests fails natively; %s" % (len(tests), last)


def write_replay_file(prop, h, failed, body, detail):
    d = os.path.join(EVIDENCE_DIR, "replay")
    os.makedirs(d, exist_ok=True)
    path = os.path.join(d, "%s-%s.rs" % (prop, h["name"]))
    with open(path, "w") as fh:
        fh.write("// Replay of a solver counterexample (Kani concrete playback).\n")
        fh.write("// property: %s\n// harness-file: %s\n// harness: %s\n// config: %s\n" % (prop, h["file"], h["name"], h.get("config", "")))
        for f in failed:
            fh.write("// failed-check: %s @ %s\n" % (f["desc"], f["loc"]))
        fh.write("// native-result: %s\n" % detail)
        fh.write("// rerun: cd /verif && ./check %s --replay %s\n" % (prop, path))
        fh.write(body + "\n")
    return path


def do_replay(prop, path):
    text = open(path).read()
    m = re.search(r"// harness-file: (\S+)", text)
    mc = re.search(r"// config: (.*)", text)
    t = PLAYBACK_RE.search(text)
    if not m or not t:
        log("replay file not understood: %s" % path)
        return 2
    scratch = make_scratch(prop + "-replay")
    try:
        crate, _, _ = build_scratch(scratch, mc.group(1).strip() if mc else "")
        with open(os.path.join(scratch, "vh", m.group(1)), "a") as fh:
            fh.write("\n" + t.group(1) + "\n")
        logfile = os.path.join(scratch, "replay.log")
        run_cmd(["cargo", "kani", "playback", "-Z", "concrete-playback", "--", t.group(2)], crate, 900, logfile)
        out = open(logfile).read()
        sys.stdout.write(out[-4000:])
        if "test result: FAILED" in out:
            log("REPLAY: counterexample reproduces natively (test failed as expected)")
            return 1
        log("REPLAY: counterexample does not reproduce on this tree")
        return 0
    finally:
        shutil.rmtree(scratch, ignore_errors=True)


# ------------------------------------------------------------------------------------------


def main():
    args = sys.argv[1:]
    if not args:
        print(__doc__)
        return 2
    prop = args[0]
    tier = os.environ.get("VERIF_TIER", "quick")
    only = None
    keep = False
    replay = None
    i = 1
    while i < len(args):
        if args[i] == "--tier":
            tier = args[i + 1]
            i += 2
        elif args[i] == "--only":
            only = args[i + 1]
            i += 2
        elif args[i] == "--keep":
            keep = True
            i += 1
        elif args[i] == "--replay":
            replay = args[i + 1]
            i += 2
        else:
            print("unknown argument", args[i])
            return 2
    if tier not in ("quick", "thorough"):
        tier = "quick"
    if replay:
        return do_replay(prop, replay)

    seed = int(os.environ.get("VERIF_SEED", "0") or 0)
    t_start = time.time()
    harnesses = [h for h in parse_harness_files() if prop in h["props"]]
    harnesses = [h for h in harnesses if h["tier"] in ("quick", "thorough")]  # "off": kept for the record, never run
    if tier == "quick":
        harnesses = [h for h in harnesses if h["tier"] == "quick"]
    if only:
        harnesses = [h for h in harnesses if only in h["name"]]
    if not harnesses:
        log("no harnesses for %s at tier %s" % (prop, tier))
        return 2
    known = load_known()

    scratch = make_scratch(prop)
    logdir = os.path.join(EVIDENCE_DIR, "logs", prop)
    shutil.rmtree(logdir, ignore_errors=True)
    os.makedirs(logdir, exist_ok=True)
    status = 0
    results = []
    notes = []
    known_lines = []
    violations = []
    groups = {}
    for h in harnesses:
        groups.setdefault(h["config"], []).append(h)
    pending = []  # failing harnesses awaiting native replay: cheapest first, stop at the first confirmed one
    try:
      built = {}
      for config in sorted(groups):  # copy /repo for every configuration before anything runs
        gscratch = os.path.join(scratch, "cfg-" + (re.sub(r"\W+", "_", config) or "default"))
        os.makedirs(gscratch)
        built[config] = (gscratch,) + tuple(build_scratch(gscratch, config))
      for config, group in sorted(groups.items()):
        gscratch, crate, rewritten, injected = built[config]
        timeout = int(os.environ.get("VERIF_HARNESS_TIMEOUT", TIER_TIMEOUT[tier]))
        jobs = min(len(group), int(os.environ.get("VERIF_JOBS", "14")))
        # memory budget: harnesses declare their measured peak (`@mem GB`, default 3); keep the sum
        # of the parallel ones under ~44 GB of the 62 GB machine
        jobs = max(1, min(jobs, 44 // max(h["mem_gb"] for h in group)))
        cmd = ["cargo", "kani", "-j", str(jobs), "--output-format", "terse", "--output-into-files",
               "-Z", "unstable-options", "-Z", "stubbing", "--harness-timeout", "%ds" % timeout]
        for h in group:
            cmd += ["--harness", h["name"]]
        logfile = os.path.join(logdir, "kani%s.log" % ("-" + re.sub(r"\W+", "_", config) if config else ""))
        log("[%s] %d harness(es), tier=%s%s, scratch=%s" % (prop, len(group), tier, (", config " + config) if config else "", gscratch))
        rc, wall = run_cmd(cmd, crate, timeout * 3 + 600, logfile)
        kani_out = open(logfile).read()
        gstatus = 0
        if "error: could not compile" in kani_out or "error[E" in kani_out:
            errs = re.findall(r"(error(?:\[E\d+\])?: .*?)\n", kani_out)
            log("[%s] INCONCLUSIVE: the harnesses no longer compile against /repo's sources:" % prop)
            for e in errs[:8]:
                log("    " + e)
            log("    full log: %s" % logfile)
            status = 2
            gstatus = 2
        for h in group if gstatus == 0 else []:
            rf = find_result_file(crate, h)
            r = {"harness": h["name"], "file": h["file"], "functions": h["fn"], "bounds": h["bound"], "desc": h["desc"]}
            if rf is None:
                # harness name filter may match several; or kani died before running it
                r["status"] = "inconclusive"
                r["detail"] = "no result file (kani exit %s)" % rc
                log("[%s] %-44s INCONCLUSIVE (no result; see %s)" % (prop, h["name"], logfile))
                status = max(status, 2)
                results.append(r)
                continue
            text = open(rf).read()
            shutil.copy(rf, os.path.join(logdir, h["name"] + ".out"))
            pr = parse_result(text)
            r.update({"cbmc_checks": pr["checks"], "covers": pr["covers"], "solver_s": pr["time"]})
            bad_covers = [c for c in pr["covers"] if c["status"] != "SATISFIED"]
            if pr["verdict"] == "SUCCESSFUL":
                if h["known"]:
                    r["status"] = "held"
                    notes.append("finding %s no longer reproduces: harness %s now passes" % (h["known"], h["name"]))
                    log("[%s] %-44s held (%.1fs) -- NOTE: known finding %s no longer reproduces" % (prop, h["name"], pr["time"] or 0, h["known"]))
                elif bad_covers:
                    r["status"] = "vacuous"
                    r["detail"] = "reachability witness not satisfied: %s" % bad_covers
                    log("[%s] %-44s BROKEN: vacuity witness(es) unsatisfied: %s" % (prop, h["name"], [c["desc"] for c in bad_covers]))
                    status = max(status, 2)
                else:
                    r["status"] = "held"
                    log("[%s] %-44s held  (%d checks, %d witnesses, %.1fs)" % (prop, h["name"], pr["checks"], len(pr["covers"]), pr["time"] or 0))
            elif pr["verdict"] == "FAILED" and pr["failed"] and not pr["unwind_fail"]:
                failed = pr["failed"]
                r["failed_checks"] = failed
                kid = h["known"]
                if kid and kid in known and known[kid]["property"] == prop and all(
                    any(k in f["desc"] for k in h["known_check"]) for f in failed
                ):
                    r["status"] = "known-finding"
                    r["finding"] = kid
                    known_lines.append("KNOWN-FINDING: property=%s %s [%s; harness %s]" % (prop, known[kid]["what"], kid, h["name"]))
                    log("[%s] %-44s fails as recorded in known_findings.txt (%s)" % (prop, h["name"], kid))
                else:
                    log("[%s] %-44s FAILED: %s" % (prop, h["name"], "; ".join("%s @ %s" % (f["desc"], f["loc"]) for f in failed[:4])))
                    r["status"] = "failed-pending-replay"
                    pending.append((pr["time"] or 1e9, h, r, failed, crate, gscratch))
            else:
                r["status"] = "inconclusive"
                why = pr["verdict"] or "no verdict"
                if pr["unwind_fail"]:
                    why = "unwinding assertion failed (bound too small for this source)"
                r["detail"] = why
                log("[%s] %-44s INCONCLUSIVE: %s (log %s)" % (prop, h["name"], why, os.path.join(logdir, h["name"] + ".out")))
                status = 2
            results.append(r)
      for _, h, r, failed, crate, gscratch in sorted(pending, key=lambda x: x[0]):
        if violations:
            r["status"] = "failed-not-replayed"
            r["detail"] = "fails under Kani; not replayed because harness %s already gave a natively confirmed violation" % violations[0][0]["name"]
            log("[%s]   %s: not replayed (violation already confirmed)" % (prop, h["name"]))
            continue
        log("[%s]   replaying the counterexample of %s natively ..." % (prop, h["name"]))
        rep, body, detail = replay_counterexample(crate, gscratch, h, failed, logdir)
        if rep:
            path = write_replay_file(prop, h, failed, body, detail)
            r["status"] = "violation"
            r["replay"] = path
            r["native"] = detail
            violations.append((h, path, failed, detail))
            if status == 0:
                status = 1
        else:
            r["status"] = "unconfirmed"
            r["detail"] = "counterexample did not reproduce natively: %s" % detail
            log("[%s]   counterexample NOT reproduced natively (%s) -> inconclusive" % (prop, detail))
            status = 2
    except Exception as e:  # noqa
        log("[%s] driver error: %r" % (prop, e))
        status = 2
    finally:
        if not keep:
            shutil.rmtree(scratch, ignore_errors=True)

    wall = time.time() - t_start
    held = [r for r in results if r["status"] == "held"]
    total_checks = sum(r.get("cbmc_checks", 0) for r in results)
    witnesses = sum(len([c for c in r.get("covers", []) if c["status"] == "SATISFIED"]) for r in results)
    assumptions = []
    outside = []
    for h in harnesses:
        if h.get("config"):
            a = "harness %s runs on a scratch copy whose src/constants.rs has %s (scaled constant; the code is otherwise unchanged)" % (h["name"], h["config"])
            assumptions.append(a)
        for a in h["assume"]:
            if a not in assumptions:
                assumptions.append(a)
        for o in h["outside"]:
            if o not in outside:
                outside.append(o)
    evidence = {
        "property_id": prop,
        "tier": tier,
        "seed": seed,
        "level": "model_checking",
        "coverage": {
            "evaluations": max(total_checks, 1),
            "distinct_nontrivial": len([r for r in results if r["status"] in ("held", "known-finding", "violation")]) + witnesses,
            "rule": "bounded model checking: one case = one Kani harness (the whole bounded input space of that harness, decided by one CBMC/cadical query family with unwinding assertions on) or one reachability witness (kani::cover!) inside it; evaluations = CBMC checks decided; distinct_nontrivial = harnesses with a verdict + satisfied witnesses (a harness whose witnesses are not all satisfied is rejected as vacuous)",
            "samples": [
                {k: r.get(k) for k in ("harness", "status", "functions", "bounds", "cbmc_checks", "solver_s", "covers", "failed_checks", "finding", "replay", "detail") if r.get(k) is not None}
                for r in results
            ],
            "exhaustive": False,
            "engine": "kani 0.68.0 / CBMC 6.11.0 / cadical",
            "harnesses_run": len(results),
            "harnesses_held": len(held),
            "queries_discharged": total_checks,
            "reachability_witnesses_satisfied": witnesses,
            "solver_time_s": round(sum((r.get("solver_s") or 0) for r in results), 2),
            "functions_encoded": sorted({f for r in results for f in r.get("functions", [])}),
            "bounds": sorted({b for r in results for b in r.get("bounds", [])}),
            "outside_bounds": outside,
            "notes": notes,
            "source_tree": REPO,
        },
        "assumptions": assumptions + MODEL_NOTES,
        "wall_s": round(wall, 2),
        "violations": len(violations),
    }
    os.makedirs(EVIDENCE_DIR, exist_ok=True)
    with open(os.path.join(EVIDENCE_DIR, "%s.json" % prop), "w") as fh:
        json.dump(evidence, fh, indent=1)

    for line in known_lines:
        log(line)
    for h, path, failed, detail in violations:
        log("[%s] violation in harness %s: %s -- native replay: %s" % (prop, h["name"], failed[0]["desc"], detail))
    if status == 1:
        for h, path, failed, detail in violations:
            log("VIOLATION property=%s replay=%s" % (prop, path))
        return 1
    if status == 2:
        if violations:
            for h, path, failed, detail in violations:
                log("VIOLATION property=%s replay=%s" % (prop, path))
            return 1
        log("[%s] result: INCONCLUSIVE (exit 2) after %.0fs" % (prop, wall))
        return 2
    log("[%s] result: held within bounds on %d harness(es), %d checks, %.0fs" % (prop, len(results), total_checks, wall))
    return 0


if __name__ == "__main__":
    sys.exit(main())
