#!/bin/bash
# dev helper: lib/dev.sh setup | lib/dev.sh run <harness> [timeout] | lib/dev.sh sync
D=${DEVDIR:-/var/tmp/rdest-dev}
case "$1" in
  setup)
    rm -rf $D; VERIF_SCRATCH=/var/tmp python3 - <<PY
import sys; sys.path.insert(0,'/verif/lib'); import driver, os
os.makedirs('$D'); driver.build_scratch('$D')
PY
    ;;
  sync)
    rm -rf $D/vh $D/env; cp -r /verif/harness $D/vh; cp -r /verif/env $D/env; rm -rf $D/env/*/target;;
  run)
    cd $D/rdest && (ulimit -s unlimited; ulimit -v ${3:-20000000}; /usr/bin/time -f "%es %MKB" timeout ${4:-600} cargo kani --harness "$2" -Z stubbing --output-format terse 2>&1 | grep -E "^Checking harness|^VERIFICATION:|^Verification Time|^Failed Checks|^ File:|^error|KB$|l2_rename|^CBMC|variables,|Runtime (Symex|Solver|Post-process):|cover properties|bad_alloc|^ \*\*" | head -${5:-30});;
esac
