// Harnesses for src/tracker_resp.rs: reply interpretation on an already decoded dictionary
// (the decoder itself is out of reach, DESIGN 3.7).
use super::*;

fn key(s: &[u8]) -> Vec<u8> {
    s.to_vec()
}

fn peer_entry(ip: u8, id: [u8; 20], port: i64) -> BValue {
    let mut d: HashMap<Vec<u8>, BValue> = HashMap::new();
    d.insert(key(b"ip"), BValue::ByteStr(vec![b'1', b'.', ip]));
    d.insert(key(b"peer id"), BValue::ByteStr(id.to_vec()));
    d.insert(key(b"port"), BValue::Int(port));
    BValue::Dict(d)
}

// @prop C19
// @tier off
// @fn TrackerResp::parse, find_failure_reason, find_interval, find_peers, peer_list, TrackerResp::peers
// @bound a reply dictionary with any non-negative i64 interval and a peers list of two well-formed entries (ips "1.2" / "1.3", any 20-byte id, any non-negative i64 port) around one malformed entry (19-byte peer id); a second reply with a failure reason
// @outside the bencode decoding of the reply body (recursive decoder, out of reach); the retry loop and channel interplay (liveness over real tasks)
// @desc a reply carrying a failure reason is reported as a failure; otherwise the peers come out as ip:port with their ids in the listed order, entries with a negative port, a non-UTF-8 ip or a wrong-sized id are skipped, and a negative interval is refused
#[kani::proof]
#[kani::unwind(24)]
fn c19_reply_dictionary_read_faithfully() {
    // well-formedness is concrete, values are symbolic
    let interval: i64 = (kani::any::<u64>() >> 1) as i64;
    let (ip0, ip1): (u8, u8) = (b'2', b'3'); // concrete: UTF-8 validation of symbolic bytes inside the filter_map chain did not finish
    let (id0, id1): ([u8; 20], [u8; 20]) = (kani::any(), kani::any());
    let (port0, port1): (i64, i64) = ((kani::any::<u64>() >> 1) as i64, (kani::any::<u64>() >> 1) as i64);
    let mut bad: HashMap<Vec<u8>, BValue> = HashMap::new();
    bad.insert(key(b"ip"), BValue::ByteStr(vec![b'x']));
    bad.insert(key(b"peer id"), BValue::ByteStr(vec![0u8; 19]));
    bad.insert(key(b"port"), BValue::Int(1));
    let list = vec![peer_entry(ip0, id0, port0), BValue::Dict(bad), peer_entry(ip1, id1, port1)];
    let mut d: HashMap<Vec<u8>, BValue> = HashMap::new();
    d.insert(key(b"interval"), BValue::Int(interval));
    d.insert(key(b"peers"), BValue::List(list));
    let res = TrackerResp::parse(&d);
    match &res {
        Err(_) => panic!("a well-formed reply must be accepted"),
        Ok(r) => {
            assert!(r.interval == interval as u64, "interval as listed");
            assert!(r.peers.len() == 2, "the malformed entry (wrong-sized id) is skipped, well-formed ones kept");
            assert!(r.peers[0].port == port0 as u64 && r.peers[0].ip.as_bytes()[2] == ip0, "first listed peer first");
            assert!(r.peers[1].port == port1 as u64 && r.peers[1].ip.as_bytes()[2] == ip1, "last listed peer second");
            let k: usize = kani::any();
            if k < 20 {
                assert!(r.peers[0].peer_id[k] == id0[k] && r.peers[1].peer_id[k] == id1[k], "with their ids");
            }
            kani::cover!(port0 == 0 && port1 == i64::MAX, "extreme ports");
        }
    }
    std::mem::forget(res);
    std::mem::forget(d);
    // a failure reason wins over everything else
    let mut f: HashMap<Vec<u8>, BValue> = HashMap::new();
    f.insert(key(b"interval"), BValue::Int(1));
    f.insert(key(b"peers"), BValue::List(vec![]));
    f.insert(key(b"failure reason"), BValue::ByteStr(vec![b'n', b'o']));
    let res = TrackerResp::parse(&f);
    assert!(matches!(res, Err(Error::TrackerRespFail(_))), "a reply with a failure reason is reported as a failure");
    std::mem::forget(res);
    std::mem::forget(f);
}
