// Harnesses for src/tracker_client.rs
use super::*;
use crate::metainfo::verif_kani::{mk_simple, set_announce, set_info_hash};

fn unhex(c: u8) -> Option<u8> {
    match c {
        b'0'..=b'9' => Some(c - b'0'),
        b'A'..=b'F' => Some(c - b'A' + 10),
        b'a'..=b'f' => Some(c - b'a' + 10),
        _ => None,
    }
}

/// Reference application/x-www-form-urlencoded decoder: exactly `expect.len()` bytes must come out.
fn decodes_to(enc: &[u8], expect: &[u8]) -> bool {
    let mut i = 0;
    let mut k = 0;
    while k < expect.len() {
        if i >= enc.len() {
            return false;
        }
        let b = if enc[i] == b'%' {
            if i + 2 >= enc.len() {
                return false;
            }
            match (unhex(enc[i + 1]), unhex(enc[i + 2])) {
                (Some(h), Some(l)) => {
                    i += 3;
                    h * 16 + l
                }
                _ => return false,
            }
        } else if enc[i] == b'+' {
            i += 1;
            b' '
        } else if enc[i] == b'&' || enc[i] == b'=' || enc[i] == b'?' || enc[i] == b'#' {
            return false;
        } else {
            i += 1;
            enc[i - 1]
        };
        if b != expect[k] {
            return false;
        }
        k += 1;
    }
    i == enc.len()
}

/// hash number `k` of the family whose 13 members together contain every byte value:
/// byte i of hash k is (20 k + i) mod 256.
fn family_hash(k: usize) -> [u8; 20] {
    let mut h = [0u8; 20];
    let mut i = 0;
    while i < 20 {
        h[i] = ((20 * k + i) % 256) as u8;
        i += 1;
    }
    h
}

fn url_for(announce: &str, sep: u8, hash: [u8; 20]) {
    let mut m = mk_simple(1, 4, 4);
    set_info_hash(&mut m, hash);
    set_announce(&mut m, announce);
    let url = TrackerClient::create_url(&m);
    let u = url.as_bytes();
    let a = announce.as_bytes();
    let prefix = a.len() + 1 + 10; // announce, separator, "info_hash="
    assert!(u.len() >= prefix, "url carries the announce url and an info_hash parameter");
    let mut k = 0;
    while k < a.len() {
        assert!(u[k] == a[k], "announce url (host, path, existing query) kept verbatim");
        k += 1;
    }
    assert!(u[a.len()] == sep, "parameter separator: ? for a bare url, & after an existing query");
    let key = b"info_hash=";
    let mut k = 0;
    while k < 10 {
        assert!(u[a.len() + 1 + k] == key[k], "parameter name");
        k += 1;
    }
    assert!(decodes_to(&u[prefix..], &hash), "the info_hash value percent-decodes to exactly the 20 info-hash bytes");
    std::mem::forget(m);
}

// @prop C18
// @fn url::form_urlencoded::byte_serialize (the encoder create_url delegates to)
// @bound every single byte value 0..=255 as a one-byte input
// @outside multi-byte inputs with symbolic content: Kani needs > 19 GB for one symbolic byte inside a 20-byte hash, and for two symbolic bytes it reports a counterexample ("47") that does not reproduce natively (DESIGN 3.9); longer inputs are covered by the concrete family below
// @desc for every byte value the form-urlencoded encoding percent-decodes back to exactly that byte and never emits a raw '&', '=', '?', '#'
#[kani::proof]
#[kani::unwind(6)]
fn c18_encoder_kernel_every_byte_value() {
    let b: u8 = kani::any();
    let enc: String = form_urlencoded::byte_serialize(&[b]).collect();
    assert!(decodes_to(enc.as_bytes(), &[b]), "decode(encode(b)) == b");
    kani::cover!(b == 0, "NUL");
    kani::cover!(b == b'%' || b == b'+' || b == b'&', "reserved characters");
    kani::cover!(b >= 0x80, "non-UTF-8 byte");
}

// @prop C18
// @fn TrackerClient::create_url, url::form_urlencoded::byte_serialize
// @bound announce url "http://t/a"; concrete hash number 0 of a 13-member family that together contains every byte value (bytes 0..19: NUL and control bytes)
// @outside symbolic hashes (see c18_encoder_kernel_every_byte_value); what reqwest/url do with the string afterwards (peer_id, port, left parameters; host/path parsing) is not encoded
// @desc the request url is the announce url kept verbatim, '?' (or '&' when the announce url already has a query), "info_hash=", and a value that percent-decodes to exactly the 20 hash bytes
#[kani::proof]
#[kani::unwind(22)]
fn c18_url_assembly_family_member_0() {
    url_for("http://t/a", b'?', family_hash(0));
    kani::cover!(true, "reached");
}

// @prop C18
// @fn TrackerClient::create_url, url::form_urlencoded::byte_serialize
// @bound announce url "http://t/a"; concrete hash number 1 of a 13-member family that together contains every byte value (bytes 20..39: space, '#', '%', '&')
// @outside symbolic hashes (see c18_encoder_kernel_every_byte_value); what reqwest/url do with the string afterwards (peer_id, port, left parameters; host/path parsing) is not encoded
// @desc the request url is the announce url kept verbatim, '?' (or '&' when the announce url already has a query), "info_hash=", and a value that percent-decodes to exactly the 20 hash bytes
#[kani::proof]
#[kani::unwind(22)]
fn c18_url_assembly_family_member_1() {
    url_for("http://t/a", b'?', family_hash(1));
    kani::cover!(true, "reached");
}

// @prop C18
// @fn TrackerClient::create_url, url::form_urlencoded::byte_serialize
// @bound announce url "http://t/a?k=v"; concrete hash number 2 of a 13-member family that together contains every byte value (bytes 40..59: '*', '+', '-', '.', digits; announce url with an existing query)
// @outside symbolic hashes (see c18_encoder_kernel_every_byte_value); what reqwest/url do with the string afterwards (peer_id, port, left parameters; host/path parsing) is not encoded
// @desc the request url is the announce url kept verbatim, '?' (or '&' when the announce url already has a query), "info_hash=", and a value that percent-decodes to exactly the 20 hash bytes
#[kani::proof]
#[kani::unwind(22)]
fn c18_url_assembly_family_member_2() {
    url_for("http://t/a?k=v", b'&', family_hash(2));
    kani::cover!(true, "reached");
}

// @prop C18
// @fn TrackerClient::create_url, url::form_urlencoded::byte_serialize
// @bound announce url "http://t/a?k=v"; concrete hash number 12 of a 13-member family that together contains every byte value (bytes 240..255, 0..3: non-UTF-8 bytes; announce url with an existing query)
// @outside symbolic hashes (see c18_encoder_kernel_every_byte_value); what reqwest/url do with the string afterwards (peer_id, port, left parameters; host/path parsing) is not encoded
// @desc the request url is the announce url kept verbatim, '?' (or '&' when the announce url already has a query), "info_hash=", and a value that percent-decodes to exactly the 20 hash bytes
#[kani::proof]
#[kani::unwind(22)]
fn c18_url_assembly_family_member_12() {
    url_for("http://t/a?k=v", b'&', family_hash(12));
    kani::cover!(true, "reached");
}

// @prop C18
// @tier thorough
// @fn TrackerClient::create_url, url::form_urlencoded::byte_serialize
// @bound both announce urls x all 13 family hashes (every byte value occurs)
// @desc as c18_url_assembly_family_member_* over the whole family
#[kani::proof]
#[kani::unwind(22)]
fn c18_url_assembly_concrete_family_all() {
    let mut k = 0;
    while k < 13 {
        url_for("http://t/a", b'?', family_hash(k));
        url_for("http://t/a?k=v", b'&', family_hash(k));
        k += 1;
    }
    kani::cover!(k == 13, "whole family visited");
}

// @prop C18
// @fn TrackerClient::create_url, url::form_urlencoded::byte_serialize
// @bound announce urls "http://t/a?k=/v" (a query that itself contains '/') and "http://t/a/b" (no query, deeper path); concrete hash number 3 of the family (bytes 60..79: '<', '=', '>', '?', '@', upper-case letters)
// @outside symbolic announce urls: a harness over "http://t/a" + 4 symbolic characters from {'?','/','=','k'} ran out of 24 GB after 275 s (String::contains and the comparison loops over symbolic bytes); fragments; urls ending in '?'
// @desc the separator decision looks at the whole announce url: '&' when a query exists even if the query contains '/', '?' when none exists; url kept verbatim; value decodes to the hash
#[kani::proof]
#[kani::unwind(22)]
fn c18_separator_query_with_slash() {
    url_for("http://t/a?k=/v", b'&', family_hash(3));
    url_for("http://t/a/b", b'?', family_hash(3));
    kani::cover!(true, "reached");
}
