// Harnesses for src/messages/have.rs
use super::*;
use crate::frame::Frame;
use std::io::Cursor;

// @prop C07
// @fn Have::new, Have::data, Have::check, Have::from, Frame::parse
// @bound all piece indices in u32
// @desc Have bytes == <len=5><id=4><index big endian>; decoding yields the same index and consumes 9 bytes
#[kani::proof]
#[kani::unwind(20)]
fn c07_have_layout_and_roundtrip() {
    let i: u32 = kani::any();
    let d = Have::new(i as usize).data();
    assert!(d.len() == 9 && d[0] == 0 && d[1] == 0 && d[2] == 0 && d[3] == 5 && d[4] == 4, "prefix and id");
    assert!(d[5] == (i >> 24) as u8 && d[6] == (i >> 16) as u8 && d[7] == (i >> 8) as u8 && d[8] == i as u8, "index big endian");
    let mut crs = Cursor::new(&d[..]);
    match Frame::parse(&mut crs) {
        Ok(Frame::Have(h)) => {
            assert!(h.piece_index == i, "decoded index equal");
            assert!(h.piece_index() == i as usize);
            assert!(crs.position() == 9, "consumes exactly its length");
            kani::cover!(i == u32::MAX, "max index");
        }
        _ => panic!("have bytes did not decode to Have"),
    }
}

// @prop C12 C06
// @fn Have::validate
// @bound all indices in u32, all pieces_num in usize
// @desc Have::validate accepts exactly indices < pieces_num (so the manager never indexes out of range)
#[kani::proof]
fn c12_have_validate_spec() {
    let i: u32 = kani::any();
    let n: usize = kani::any();
    let h = Have { piece_index: i };
    let ok = h.validate(n).is_ok();
    kani::cover!(ok, "accepting path");
    kani::cover!(!ok, "rejecting path");
    assert!(ok == ((i as usize) < n), "accepts exactly in-range indices");
}
