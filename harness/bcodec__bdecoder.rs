// Harnesses for src/bcodec/bdecoder.rs
use super::*;

/// Verdict of an independent, allocation-free recogniser of "sequence of well-formed bencoded
/// values" (BEP3 grammar; dictionary key order/uniqueness not enforced, leading zeros in string
/// length prefixes allowed, integers must be canonical).
#[derive(PartialEq, Clone, Copy)]
pub(crate) enum Wf {
    WellFormed,
    Malformed,
    /// Input ends at a value boundary inside at least one open list/dictionary, everything
    /// before being well-formed (dictionary arity even): an unterminated container.
    OpenAtEof,
}

const MAXDEPTH: usize = 8;

pub(crate) fn wf_seq(b: &[u8]) -> Wf {
    let n = b.len();
    let mut pos = 0usize;
    // stack of open containers: (is_dict, number of elements so far, last element was a string)
    let mut is_dict = [false; MAXDEPTH];
    let mut count = [0usize; MAXDEPTH];
    let mut depth = 0usize;
    let mut steps = 0usize;
    while steps <= n {
        steps += 1;
        if pos >= n {
            if depth == 0 {
                return Wf::WellFormed;
            }
            // all open dictionaries must have an even number of elements to be a mere truncation
            let mut d = 0;
            let mut even = true;
            while d < depth {
                if is_dict[d] && count[d] % 2 != 0 {
                    even = false;
                }
                d += 1;
            }
            return if even { Wf::OpenAtEof } else { Wf::Malformed };
        }
        let c = b[pos];
        let mut value_is_str = false;
        if c == b'e' {
            if depth == 0 {
                return Wf::Malformed;
            }
            depth -= 1;
            if is_dict[depth] && count[depth] % 2 != 0 {
                return Wf::Malformed;
            }
            pos += 1;
        } else if c == b'l' || c == b'd' {
            if depth >= MAXDEPTH {
                return Wf::Malformed; // unreachable within the harness bounds
            }
            // a container in key position is malformed
            if depth > 0 && is_dict[depth - 1] && count[depth - 1] % 2 == 0 {
                return Wf::Malformed;
            }
            is_dict[depth] = c == b'd';
            count[depth] = 0;
            depth += 1;
            pos += 1;
            continue; // the container counts in its parent when it closes
        } else if c == b'i' {
            // i<canonical int>e
            let mut p = pos + 1;
            let mut neg = false;
            if p < n && b[p] == b'-' {
                neg = true;
                p += 1;
            }
            let start = p;
            while p < n && b[p] >= b'0' && b[p] <= b'9' {
                p += 1;
            }
            let digits = p - start;
            if digits == 0 || p >= n || b[p] != b'e' {
                return Wf::Malformed;
            }
            if b[start] == b'0' && (digits > 1 || neg) {
                return Wf::Malformed;
            }
            pos = p + 1;
        } else if c >= b'0' && c <= b'9' {
            // <len>:<bytes>
            let mut p = pos;
            let mut len = 0usize;
            while p < n && b[p] >= b'0' && b[p] <= b'9' {
                len = len * 10 + (b[p] - b'0') as usize;
                p += 1;
            }
            if p >= n || b[p] != b':' {
                return Wf::Malformed;
            }
            if n - (p + 1) < len {
                return Wf::Malformed;
            }
            pos = p + 1 + len;
            value_is_str = true;
        } else {
            return Wf::Malformed;
        }
        // a complete value (or a closed container) was consumed: account for it in the parent
        if depth > 0 {
            if is_dict[depth - 1] && count[depth - 1] % 2 == 0 && !value_is_str {
                return Wf::Malformed; // key is not a string
            }
            count[depth - 1] += 1;
        }
    }
    Wf::Malformed
}

fn decoder_vs_recogniser<const N: usize>(open_region: bool) {
    let buf: [u8; N] = kani::any();
    let n: usize = kani::any();
    kani::assume(n <= N);
    let input = &buf[..n];
    let v = wf_seq(input);
    if open_region {
        kani::assume(v == Wf::OpenAtEof);
    } else {
        kani::assume(v != Wf::OpenAtEof);
    }
    let res = BDecoder::from_array(input);
    let ok = res.is_ok();
    std::mem::forget(res);
    if open_region {
        assert!(!ok, "an unterminated list or dictionary is rejected");
    } else {
        assert!(ok == (v == Wf::WellFormed), "the decoder succeeds exactly on sequences of well-formed values");
        kani::cover!(ok && n == N, "a well-formed document of maximal length");
        kani::cover!(!ok, "a rejected document");
    }
}

// @prop C16
// @tier off
// @fn BDecoder::from_array, BDecoder::values_vector, parse_byte_str, parse_int, parse_list, parse_dict, keys_from_list, extract_int
// @bound every byte string of 0..=3 bytes that does not merely end inside an open container
// @outside inputs longer than 3 (quick) / 4 (thorough) bytes; integers beyond i64; huge length prefixes
// @desc from_array never panics and is_ok() equals the verdict of an independent BEP3 recogniser (truncated strings, missing ':', non-canonical integers, stray 'e', odd dictionaries, non-string keys all rejected)
#[kani::proof]
#[kani::unwind(5)]
fn c16_decoder_accepts_exactly_wellformed_3() {
    decoder_vs_recogniser::<3>(false);
}

// @prop C16
// @tier off
// @fn BDecoder::from_array (as above)
// @bound every byte string of 0..=4 bytes that does not merely end inside an open container
// @desc as c16_decoder_accepts_exactly_wellformed_3 up to 4 bytes
#[kani::proof]
#[kani::unwind(6)]
fn c16_decoder_accepts_exactly_wellformed_4() {
    decoder_vs_recogniser::<4>(false);
}

// @prop C16
// @tier off
// @known C16-open-container-at-eof
// @known-check an unterminated list or dictionary is rejected
// @fn BDecoder::from_array
// @bound every byte string of 1..=3 bytes that ends at a value boundary inside an open list/dictionary
// @desc twin of the main harness restricted to the recorded finding: unterminated containers (l, d, li1e, d1:a1:b ...) are accepted by values_vector at end of input
#[kani::proof]
#[kani::unwind(5)]
fn c16_known_unterminated_container_3() {
    decoder_vs_recogniser::<3>(true);
}

// ---------------------------------------------------------------------------------------------
// Kernels without recursion: the integer and byte-string token parsers, driven directly.

fn parse_int_spec<const N: usize>() {
    // bytes following the already consumed 'i'
    let buf: [u8; N] = kani::any();
    let n: usize = kani::any();
    kani::assume(n <= N);
    let input = &buf[..n];
    let mut it = input.iter().enumerate();
    let res = BDecoder::parse_int(&mut it, 0);
    // reference: [-]digits 'e', canonical
    let mut p = 0usize;
    let mut neg = false;
    if p < n && input[p] == b'-' {
        neg = true;
        p += 1;
    }
    let start = p;
    let mut val: i64 = 0;
    while p < n && input[p] >= b'0' && input[p] <= b'9' {
        val = val * 10 + (input[p] - b'0') as i64;
        p += 1;
    }
    let digits = p - start;
    let wellformed = digits > 0 && p < n && input[p] == b'e' && !(input[start] == b'0' && (digits > 1 || neg));
    match &res {
        Ok((v, raw)) => {
            assert!(wellformed, "an integer is accepted only in canonical form terminated by e");
            assert!(*v == if neg { -val } else { val }, "decoded value");
            assert!(raw.len() == p + 2 && raw[0] == b'i' && raw[raw.len() - 1] == b'e', "raw form is i<digits>e");
            // the iterator stands right behind the terminating 'e'
            match it.next() {
                Some((idx, _)) => assert!(idx == p + 1, "consumes exactly through the terminator"),
                None => assert!(p + 1 == n),
            }
            kani::cover!(neg && digits + 2 == N, "longest negative number in bound");
        }
        Err(_) => {
            assert!(!wellformed, "every canonical integer is accepted");
            kani::cover!(digits > 1 && input[start] == b'0', "leading zero rejected");
        }
    }
    std::mem::forget(res);
}

// @prop C16 C15
// @fn BDecoder::parse_int, BDecoder::extract_int
// @bound every byte string of 0..=3 bytes following the integer marker
// @outside continuations longer than 3 (quick) / 5 (thorough) bytes; values beyond i64 (rejected by the implementation: str::parse)
// @desc parse_int accepts exactly -?digits followed by e in canonical form (no leading zero, no -0, no empty digits, no sign alone), returns the value, the raw i..e form, and leaves the input positioned right after the terminator
#[kani::proof]
#[kani::unwind(6)]
fn c16_parse_int_exact_3() {
    parse_int_spec::<3>();
}

// @prop C16 C15
// @tier thorough
// @fn BDecoder::parse_int, BDecoder::extract_int
// @bound every byte string of 0..=4 bytes following the integer marker
// @desc as c16_parse_int_exact_3 up to 4 bytes
#[kani::proof]
#[kani::unwind(7)]
fn c16_parse_int_exact_4() {
    parse_int_spec::<4>();
}

// @prop C16 C15
// @tier thorough
// @fn BDecoder::parse_int, BDecoder::extract_int
// @bound every byte string of 0..=5 bytes following the integer marker
// @desc as c16_parse_int_exact_3 up to 5 bytes
#[kani::proof]
#[kani::unwind(8)]
fn c16_parse_int_exact_5() {
    parse_int_spec::<5>();
}

fn parse_str_spec<const N: usize>() {
    // first digit already consumed by the caller; buf = the rest of the input
    let first: u8 = kani::any();
    kani::assume(first >= b'0' && first <= b'9');
    let buf: [u8; N] = kani::any();
    let n: usize = kani::any();
    kani::assume(n <= N);
    let input = &buf[..n];
    let mut it = input.iter().enumerate();
    let res = BDecoder::parse_byte_str(&mut it, 0, &first);
    // reference
    let mut p = 0usize;
    let mut len = (first - b'0') as usize;
    while p < n && input[p] >= b'0' && input[p] <= b'9' {
        len = len * 10 + (input[p] - b'0') as usize;
        p += 1;
    }
    let wellformed = p < n && input[p] == b':' && n - (p + 1) >= len;
    match &res {
        Ok((val, raw)) => {
            assert!(wellformed, "a string is accepted only as <len>:<len bytes> (missing ':' or too few bytes rejected)");
            assert!(val.len() == len, "exactly len bytes");
            let k: usize = kani::any();
            if k < len {
                assert!(val[k] == input[p + 1 + k], "the bytes after the colon, verbatim");
            }
            assert!(raw.len() == 1 + p + 1 + len, "raw form is <digits>:<bytes>");
            match it.next() {
                Some((idx, _)) => assert!(idx == p + 1 + len, "consumes exactly the string"),
                None => assert!(p + 1 + len == n),
            }
            kani::cover!(len == N - 1, "longest string in bound");
            kani::cover!(len == 0, "empty string");
        }
        Err(_) => {
            assert!(!wellformed, "every well-formed string is accepted");
            kani::cover!(p == n, "missing colon rejected");
        }
    }
    std::mem::forget(res);
}

// @prop C16 C15
// @tier off
// @fn BDecoder::parse_byte_str
// @bound any first length digit and every continuation of 0..=3 bytes
// @outside longer inputs; huge length prefixes
// @desc parse_byte_str accepts exactly <decimal length>:<that many bytes> (leading zeros in the length allowed), returns the bytes verbatim and the raw form, and rejects a missing ':' and truncated payloads
#[kani::proof]
#[kani::unwind(6)]
fn c16_parse_byte_str_exact_3() {
    parse_str_spec::<3>();
}

fn huge_len_case(digits: &[u8]) {
    // digits = the whole length prefix; payload "abc" follows the colon
    let mut input: Vec<u8> = Vec::with_capacity(32);
    input.extend_from_slice(&digits[1..]);
    input.extend_from_slice(b":abc");
    let mut it = input.iter().enumerate();
    let res = BDecoder::parse_byte_str(&mut it, 0, &digits[0]);
    assert!(res.is_err(), "a declared length far beyond the remaining input is an error, not an allocation");
    std::mem::forget(res);
}

// @prop C16
// @tier off
// @fn BDecoder::parse_byte_str
// @bound concrete length prefixes 2^63 (9223372036854775808), usize::MAX (18446744073709551615), usize::MAX + 1 and 99999999999999999999999 followed by ":abc"
// @outside symbolic prefixes (parse_byte_str with symbolic bytes runs out of memory, see c16_parse_byte_str_exact_3)
// @desc a string whose declared length is astronomically larger than the input is rejected with an error and without panicking (no capacity overflow from trusting the declared length)
#[kani::proof]
#[kani::unwind(28)]
fn c16_huge_declared_length_is_rejected() {
    huge_len_case(b"9223372036854775808");
    huge_len_case(b"18446744073709551615");
    huge_len_case(b"18446744073709551616");
    huge_len_case(b"99999999999999999999999");
    kani::cover!(true, "reached");
}
