// Harnesses for src/messages/request.rs (child module: sees private fields and consts).
use super::*;
use crate::frame::Frame;
use std::io::Cursor;

// @prop C07
// @fn Request::new, Request::data, Request::check, Request::from, Frame::parse
// @bound all (index, begin, length) in u32^3
// @desc Request bytes == BEP3 layout <len=13><id=6><index><begin><length> (big endian), and Frame::parse of those bytes yields the same fields and consumes exactly 17 bytes
#[kani::proof]
#[kani::unwind(20)]
fn c07_request_layout_and_roundtrip() {
    let i: u32 = kani::any();
    let b: u32 = kani::any();
    let l: u32 = kani::any();
    let r = Request::new(i as usize, b as usize, l as usize);
    let d = r.data();
    assert!(d.len() == 17, "request is 17 bytes");
    assert!(d[0] == 0 && d[1] == 0 && d[2] == 0 && d[3] == 13, "length prefix 13");
    assert!(d[4] == 6, "id 6");
    assert!(d[5] == (i >> 24) as u8 && d[6] == (i >> 16) as u8 && d[7] == (i >> 8) as u8 && d[8] == i as u8, "index big endian");
    assert!(d[9] == (b >> 24) as u8 && d[10] == (b >> 16) as u8 && d[11] == (b >> 8) as u8 && d[12] == b as u8, "begin big endian");
    assert!(d[13] == (l >> 24) as u8 && d[14] == (l >> 16) as u8 && d[15] == (l >> 8) as u8 && d[16] == l as u8, "length big endian");
    let mut crs = Cursor::new(&d[..]);
    match Frame::parse(&mut crs) {
        Ok(Frame::Request(q)) => {
            assert!(q.piece_index == i && q.block_begin == b && q.block_length == l, "decoded fields equal");
            assert!(crs.position() == 17, "consumes exactly its length");
            kani::cover!(i > 0x7fff_ffff && b > 0x7fff_ffff, "high-bit fields round-trip");
        }
        _ => panic!("request bytes did not decode to a Request"),
    }
}

// @prop C09
// @fn Request::validate
// @bound all (index, begin, length) in u32^3; expected piece index < 2^32, pieces_num < 2^32, piece length < 2^32 (what a 32-bit wire field can address)
// @assume piece_index, pieces_num and piece_length fit in u32 (pieces are <= 4 GiB; validate() itself casts them to u32)
// @desc validate never panics (incl. begin+length overflowing u32) and Ok implies: index is the loaded one and in range, length <= 16 KiB, begin+length <= piece length in mathematical integers
#[kani::proof]
fn c09_request_validate_spec() {
    let r = Request {
        piece_index: kani::any(),
        block_begin: kani::any(),
        block_length: kani::any(),
    };
    let piece_index: usize = kani::any();
    let pieces_num: usize = kani::any();
    let piece_length: usize = kani::any();
    kani::assume(piece_index <= u32::MAX as usize);
    kani::assume(pieces_num <= u32::MAX as usize);
    kani::assume(piece_length <= u32::MAX as usize);
    let res = r.validate(piece_index, pieces_num, piece_length);
    let spec = (r.piece_index as u64) < pieces_num as u64
        && r.piece_index as u64 == piece_index as u64
        && r.block_length as u64 <= 16384
        && r.block_begin as u64 + r.block_length as u64 <= piece_length as u64;
    kani::cover!(res.is_ok(), "accepting path reachable");
    kani::cover!(res.is_err() && r.block_begin > 0xffff_0000, "rejecting path with huge begin reachable");
    // safety direction: whatever is accepted is in range (rejecting more would serve nothing,
    // which the property allows)
    assert!(!res.is_ok() || spec, "validate accepts only requests for the loaded piece, at most 16 KiB long and inside the piece");
}
