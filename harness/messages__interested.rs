// Harnesses for src/messages/interested.rs
use super::*;
use crate::frame::Frame;
use std::io::Cursor;

// @prop C07
// @fn Interested::new, Interested::data, Interested::check, Frame::parse
// @bound the message has no fields: single concrete encoding; trailing bytes 0..=4 symbolic
// @desc Interested bytes == <len=1><id=2>; Frame::parse yields Interested and consumes exactly 5 bytes whatever follows
#[kani::proof]
#[kani::unwind(20)]
fn c07_interested_layout_and_roundtrip() {
    let d = Interested::new().data();
    assert!(d.len() == 5 && d[0] == 0 && d[1] == 0 && d[2] == 0 && d[3] == 1 && d[4] == 2, "BEP3 layout");
    let mut buf = [0u8; 9];
    buf[..5].copy_from_slice(&d);
    let extra: [u8; 4] = kani::any();
    buf[5..].copy_from_slice(&extra);
    let n: usize = kani::any();
    kani::assume(n <= 4);
    let mut crs = Cursor::new(&buf[..5 + n]);
    match Frame::parse(&mut crs) {
        Ok(Frame::Interested(_)) => {
            assert!(crs.position() == 5, "consumes exactly its length");
            kani::cover!(n == 4, "with trailing bytes");
        }
        _ => panic!("Interested bytes did not decode to Interested"),
    }
}
