// Harnesses for src/session.rs (manager)
use super::*;
use crate::metainfo::verif_kani::mk_simple;
use crate::peer::verif_kani::{any_peer, any_statuses, fresh_peer};
use tokio::model::run_ready;

pub(crate) const ADDRS: [&str; 12] = ["a", "b", "c", "d", "e", "f", "g", "h", "i", "j", "k", "l"];

/// A Session over `n` pieces of 4 bytes with no view, no tracker/extractor job and no peers.
pub(crate) fn mk_session(n: usize) -> Session {
    Session::new(mk_simple(n, 4, (4 * n) as u64), [1u8; PEER_ID_SIZE])
}

fn choose_spec(n: usize, npeers: usize) {
    let mut s = mk_session(n);
    s.pieces_status = any_statuses(n);
    let mut k = 0;
    while k < npeers {
        s.peers.insert(String::from(ADDRS[k]), any_peer(n));
        k += 1;
    }
    let addr = String::from(ADDRS[0]);
    let got = run_ready(s.choose_piece_index(&addr)).expect("never blocks without a view");
    // reference: availability, eligibility
    let mut missing = 0;
    let mut i = 0;
    while i < n {
        if s.pieces_status[i] != Status::Have {
            missing += 1;
        }
        i += 1;
    }
    let end_game = missing < END_GAME_LIMIT;
    let me = &s.peers[&addr];
    let mut best: Option<u32> = None; // smallest availability among eligible pieces
    let mut i = 0;
    while i < n {
        let wanted = if end_game { s.pieces_status[i] != Status::Have } else { s.pieces_status[i] == Status::Missing };
        if wanted && me.pieces[i] {
            let mut cnt = 0u32;
            let mut k = 0;
            while k < npeers {
                if s.peers[&String::from(ADDRS[k])].pieces[i] {
                    cnt += 1;
                }
                k += 1;
            }
            best = match best {
                Some(b) if b <= cnt => Some(b),
                _ => Some(cnt),
            };
        }
        i += 1;
    }
    match got {
        Some(i) => {
            assert!(i < n, "index in range");
            assert!(me.pieces[i], "the peer advertises the piece");
            assert!(s.pieces_status[i] != Status::Have, "the client lacks the piece");
            assert!(end_game || s.pieces_status[i] == Status::Missing, "not already being fetched unless fewer than ten pieces remain");
            let mut cnt = 0u32;
            let mut k = 0;
            while k < npeers {
                if s.peers[&String::from(ADDRS[k])].pieces[i] {
                    cnt += 1;
                }
                k += 1;
            }
            assert!(best == Some(cnt), "no other eligible piece is advertised by fewer connected peers");
            kani::cover!(cnt == 2, "a piece two peers have is picked");
        }
        None => {
            assert!(best.is_none(), "picks nothing exactly when no eligible piece exists");
            kani::cover!(true, "nothing to pick");
        }
    }
    std::mem::forget(s);
}

// @prop C13
// @fn Session::choose_piece_index, rand-model shuffle (all permutations), slice::sort_by
// @bound 3 pieces (end-game side of the threshold: fewer than ten missing), 2 peers with arbitrary advertised sets, every status vector, every shuffle outcome
// @outside more than 3 pieces / 2 peers on this side of the threshold
// @desc the pick is advertised by the peer, lacked by the client, and of minimal availability among such pieces; None exactly when no such piece exists
#[kani::proof]
#[kani::unwind(6)]
fn c13_rarest_first_end_game_3x2() {
    choose_spec(3, 2);
}
