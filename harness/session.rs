// Harnesses for src/session.rs (manager)
use super::*;
use crate::metainfo::verif_kani::mk_simple;
use crate::peer::verif_kani::{any_peer, any_statuses, fresh_peer};
use tokio::model::run_ready;

pub(crate) const ADDRS: [&str; 12] = ["a", "b", "c", "d", "e", "f", "g", "h", "i", "j", "k", "l"];

/// A Session over `n` pieces of 4 bytes with no view, no tracker/extractor job and no peers.
pub(crate) fn mk_session(n: usize) -> Session {
    Session::new(mk_simple(n, 4, (4 * n) as u64), [1u8; PEER_ID_SIZE])
}

fn choose_spec(n: usize, npeers: usize) {
    let mut s = mk_session(n);
    s.pieces_status = any_statuses(n);
    let mut k = 0;
    while k < npeers {
        s.peers.insert(String::from(ADDRS[k]), any_peer(n));
        k += 1;
    }
    let addr = String::from(ADDRS[0]);
    let got = run_ready(s.choose_piece_index(&addr)).expect("never blocks without a view");
    // reference: availability, eligibility
    let mut missing = 0;
    let mut i = 0;
    while i < n {
        if s.pieces_status[i] != Status::Have {
            missing += 1;
        }
        i += 1;
    }
    let end_game = missing < END_GAME_LIMIT;
    let me = &s.peers[&addr];
    let mut best: Option<u32> = None; // smallest availability among eligible pieces
    let mut i = 0;
    while i < n {
        let wanted = if end_game { s.pieces_status[i] != Status::Have } else { s.pieces_status[i] == Status::Missing };
        if wanted && me.pieces[i] {
            let mut cnt = 0u32;
            let mut k = 0;
            while k < npeers {
                if s.peers[&String::from(ADDRS[k])].pieces[i] {
                    cnt += 1;
                }
                k += 1;
            }
            best = match best {
                Some(b) if b <= cnt => Some(b),
                _ => Some(cnt),
            };
        }
        i += 1;
    }
    match got {
        Some(i) => {
            assert!(i < n, "index in range");
            assert!(me.pieces[i], "the peer advertises the piece");
            assert!(s.pieces_status[i] != Status::Have, "the client lacks the piece");
            assert!(end_game || s.pieces_status[i] == Status::Missing, "not already being fetched unless fewer than ten pieces remain");
            let mut cnt = 0u32;
            let mut k = 0;
            while k < npeers {
                if s.peers[&String::from(ADDRS[k])].pieces[i] {
                    cnt += 1;
                }
                k += 1;
            }
            assert!(best == Some(cnt), "no other eligible piece is advertised by fewer connected peers");
            kani::cover!(cnt == 2, "a piece two peers have is picked");
        }
        None => {
            assert!(best.is_none(), "picks nothing exactly when no eligible piece exists");
            kani::cover!(true, "nothing to pick");
        }
    }
    std::mem::forget(s);
}

// @prop C13
// @fn Session::choose_piece_index, rand-model shuffle (all permutations), slice::sort_by
// @bound 3 pieces (end-game side of the threshold: fewer than ten missing), 2 peers with arbitrary advertised sets, every status vector, every shuffle outcome
// @outside more than 3 pieces / 2 peers on this side of the threshold
// @desc the pick is advertised by the peer, lacked by the client, and of minimal availability among such pieces; None exactly when no such piece exists
#[kani::proof]
#[kani::unwind(6)]
fn c13_rarest_first_end_game_3x2() {
    choose_spec(3, 2);
}

/// `np` peers with arbitrary choke/interest/optimistic flags; at most one carries the
/// optimistic flag (the invariant change_conn_state maintains: it clears all flags before
/// setting a new one).
fn peers_for_rotation(s: &mut Session, np: usize) {
    let mut optimistic_seen = false;
    let mut k = 0;
    while k < np {
        let mut p = fresh_peer(1);
        p.am_choked = kani::any();
        p.interested = kani::any();
        p.optimistic_unchoke = kani::any();
        if p.optimistic_unchoke {
            kani::assume(!optimistic_seen);
            optimistic_seen = true;
        }
        s.peers.insert(String::from(ADDRS[k]), p);
        k += 1;
    }
}

fn regular_unchoked(s: &Session, np: usize) -> usize {
    let mut c = 0;
    let mut k = 0;
    while k < np {
        let p = &s.peers[&String::from(ADDRS[k])];
        if !p.am_choked && !p.optimistic_unchoke {
            c += 1;
        }
        k += 1;
    }
    c
}

fn unchoked_num_spec(np: usize) {
    let mut s = mk_session(1);
    peers_for_rotation(&mut s, np);
    let got = s.unchoked_num();
    // an over-count would only make the client more conservative; an under-count lets an
    // eleventh peer in
    assert!(got >= regular_unchoked(&s, np), "the number of slots reported as in use is at least the number of regularly unchoked peers");
    kani::cover!(got >= np - 1, "all but one peer hold regular slots");
    kani::cover!(got == 0, "no slot in use");
    std::mem::forget(s);
}

// @prop C14
// @fn Session::unchoked_num
// @bound 3 peers, every combination of (am_choked, interested, optimistic_unchoke) flags with at most one optimistic flag
// @outside more than 3 (quick) / 12 (thorough) peers
// @desc the number handed to the bitfield handler as "slots in use" is never below the number of regularly (non-optimistically) unchoked peers, so a new peer is unchoked only while fewer than ten regular slots are taken
#[kani::proof]
#[kani::unwind(5)]
fn c14_unchoked_num_counts_regular_slots_3() {
    unchoked_num_spec(3);
}

// @prop C14
// @tier thorough
// @fn Session::unchoked_num
// @bound 12 peers (more than the ten slots), every flag combination with at most one optimistic flag
// @desc as c14_unchoked_num_counts_regular_slots_3 with 12 peers
#[kani::proof]
#[kani::unwind(14)]
fn c14_unchoked_num_counts_regular_slots_12() {
    unchoked_num_spec(12);
}

fn rotation_policy(np: usize) {
    let mut s = mk_session(1);
    peers_for_rotation(&mut s, np);
    // rates in map order, any values (ties included)
    let mut rates: Vec<(String, u32)> = Vec::with_capacity(np);
    let mut rate_of = [0u32; 12];
    let mut before = [false; 12];
    let mut k = 0;
    while k < np {
        let r: u32 = kani::any();
        rate_of[k] = r;
        rates.push((String::from(ADDRS[k]), r));
        before[k] = s.peers[&String::from(ADDRS[k])].am_choked;
        k += 1;
    }
    // the caller picks the new optimistic peer among choked + interested peers (or none)
    let mut new_optimistic: Vec<String> = Vec::new();
    let pick: usize = kani::any();
    if pick < np {
        let p = &s.peers[&String::from(ADDRS[pick])];
        kani::assume(p.am_choked && p.interested);
        new_optimistic.push(String::from(ADDRS[pick]));
    }
    let cmd = s.change_conn_state(&mut rates, &new_optimistic).expect("all peers are known");
    let map = match &cmd {
        BroadCmd::SendOwnState { am_choked_map } => am_choked_map,
        _ => panic!("rotation must broadcast SendOwnState"),
    };
    let mut regular = 0; // unchoked without the optimistic flag
    let mut optimistic = 0; // unchoked with the optimistic flag
    let mut holders = 0; // unchoked, interested, not the peer picked optimistically in this rotation
    let mut worst_holder: Option<u32> = None;
    let mut k = 0;
    while k < np {
        let a = String::from(ADDRS[k]);
        let p = &s.peers[&a];
        if !p.am_choked && p.optimistic_unchoke {
            optimistic += 1;
        }
        if !p.am_choked && !p.optimistic_unchoke {
            regular += 1;
            assert!(p.interested, "every regular slot belongs to a peer that declared interest");
        }
        if !p.am_choked && p.interested && pick != k {
            holders += 1;
            worst_holder = match worst_holder {
                Some(w) if w <= rate_of[k] => Some(w),
                _ => Some(rate_of[k]),
            };
        }
        if !p.interested && pick != k {
            assert!(p.am_choked, "peers that lost interest are choked");
        }
        // messages correspond exactly to state changes
        match map.get(&a) {
            Some(v) => assert!(*v == p.am_choked && (before[k] != p.am_choked || pick == k), "a Choke/Unchoke is sent only for a change, with the new state"),
            None => assert!(before[k] == p.am_choked, "every change of state is announced to that peer"),
        }
        k += 1;
    }
    assert!(regular <= MAX_UNCHOKED, "at most ten regular slots");
    assert!(optimistic <= 1, "at most one optimistic unchoke");
    assert!(holders <= MAX_UNCHOKED, "at most ten slot holders");
    // no interested choked peer is strictly better than a slot holder
    let mut k = 0;
    while k < np {
        let p = &s.peers[&String::from(ADDRS[k])];
        if p.am_choked && p.interested {
            if let Some(w) = worst_holder {
                assert!(rate_of[k] <= w, "no interested choked peer has a strictly better rate than a slot holder");
            }
        }
        k += 1;
    }
    kani::cover!(np <= MAX_UNCHOKED || holders == MAX_UNCHOKED, "all slots taken (when there are enough peers)");
    kani::cover!(optimistic == 1, "an optimistic unchoke exists");
    std::mem::forget(cmd);
    std::mem::forget(s);
}

// @prop C14
// @tier off
// @fn Session::change_conn_state
// @bound 12 peers (so the ten-slot limit binds), every flag combination satisfying the slot invariant, every rate vector in u32^12 incl. ties, every admissible optimistic pick or none
// @outside more than 12 peers; the rate measurement itself
// @desc after a rotation: <= 10 regular + <= 1 optimistic unchoked; every regular slot holder is interested; uninterested peers are choked; an interested peer stays choked only if all slots are taken by peers with rates >= its own; the broadcast map holds exactly the peers whose state changed, with the new state
#[kani::proof]
#[kani::unwind(16)]
fn c14_rotation_policy_12_peers() {
    rotation_policy(12);
}

// @prop C14
// @tier thorough
// @fn Session::change_conn_state
// @bound 3 peers (slot limit not binding), every flag combination, every rate vector, every admissible optimistic pick or none
// @desc as c14_rotation_policy_12_peers on 3 peers
#[kani::proof]
#[kani::unwind(5)]
fn c14_rotation_policy_3_peers() {
    rotation_policy(3);
}

// @prop C14
// @tier thorough
// @config MAX_UNCHOKED=1
// @fn Session::change_conn_state
// @bound 3 peers with the slot limit scaled from 10 to 1 in the scratch copy (so that the "limit reached" branch and the rate ordering bind with few peers), every flag combination, every rate vector, every admissible optimistic pick or none
// @outside the real limit of ten (would need more than ten peers: out of memory, DESIGN 3.11); the policy code does not depend on the value of the constant other than through comparisons with it
// @desc as c14_rotation_policy_3_peers, with the limit binding: at most MAX_UNCHOKED slot holders, an interested peer stays choked only if the slots are taken by peers with rates >= its own, peers beyond the limit are choked, and the broadcast map mirrors exactly the changes
#[kani::proof]
#[kani::unwind(5)]
fn c14_rotation_policy_limit_scaled_to_1() {
    rotation_policy(3);
}

// @prop C14
// @tier thorough
// @config MAX_UNCHOKED=1
// @fn Session::change_conn_state
// @bound 2 peers with the slot limit scaled from 10 to 1 in the scratch copy, every flag combination, every rate pair (ties included), every admissible optimistic pick or none
// @outside the real limit of ten; three or more peers (thorough tier)
// @desc small version of c14_rotation_policy_limit_scaled_to_1 (about 7 min, counterexamples small enough to replay): with one slot and two peers the better-rated interested peer gets the slot, the other is choked (or optimistically unchoked), uninterested peers are choked, and the broadcast map mirrors exactly the changes
#[kani::proof]
#[kani::unwind(4)]
fn c14_rotation_policy_2_peers_limit_scaled_to_1() {
    rotation_policy(2);
}

// @prop C14
// @tier thorough
// @fn Session::new_optimistic_peers, rand-model choose (any element)
// @bound 3 peers, every combination of (am_choked, interested) flags, every random pick
// @desc the peer drawn for the optimistic unchoke is one that is currently choked by us and has declared interest; nothing is drawn exactly when no such peer exists, and never more than one
#[kani::proof]
#[kani::unwind(5)]
fn c14_optimistic_candidate_is_choked_and_interested() {
    let np = 3;
    let mut s = mk_session(1);
    peers_for_rotation(&mut s, np);
    let picked = s.new_optimistic_peers();
    assert!(picked.len() <= 1, "at most one optimistic unchoke per rotation");
    let mut candidates = 0;
    let mut k = 0;
    while k < np {
        let p = &s.peers[&String::from(ADDRS[k])];
        if p.am_choked && p.interested {
            candidates += 1;
        }
        k += 1;
    }
    if picked.len() == 1 {
        let p = s.peers.get(&picked[0]).expect("the pick is a connected peer");
        assert!(p.am_choked && p.interested, "only a choked, interested peer is drawn");
        kani::cover!(candidates == 3, "drawn among three candidates");
    } else {
        assert!(candidates == 0, "nothing drawn only when there is no candidate");
        kani::cover!(true, "no candidate");
    }
    std::mem::forget(picked);
    std::mem::forget(s);
}

// @prop C13
// @tier off
// @fn Session::choose_piece_index
// @bound 2 pieces, 2 peers (probe)
// @desc probe of the chooser at the smallest interesting size
#[kani::proof]
#[kani::unwind(4)]
fn c13_rarest_first_2x2_probe() {
    choose_spec(2, 2);
}
