// Harnesses for src/messages/keep_alive.rs
use super::*;
use crate::frame::Frame;
use std::io::Cursor;

// @prop C07
// @fn KeepAlive::new, KeepAlive::data, Frame::parse
// @bound single concrete encoding; trailing bytes 0..=4 symbolic
// @desc KeepAlive bytes == <len=0>; Frame::parse yields KeepAlive and consumes exactly 4 bytes
#[kani::proof]
#[kani::unwind(20)]
fn c07_keep_alive_layout_and_roundtrip() {
    let d = KeepAlive::new().data();
    assert!(d.len() == 4 && d[0] == 0 && d[1] == 0 && d[2] == 0 && d[3] == 0, "BEP3 layout");
    let mut buf = [0u8; 8];
    let extra: [u8; 4] = kani::any();
    buf[4..].copy_from_slice(&extra);
    let n: usize = kani::any();
    kani::assume(n <= 4);
    let mut crs = Cursor::new(&buf[..4 + n]);
    match Frame::parse(&mut crs) {
        Ok(Frame::KeepAlive(_)) => {
            assert!(crs.position() == 4, "consumes exactly its length");
            kani::cover!(n == 4, "with trailing bytes");
        }
        _ => panic!("keep-alive bytes did not decode to KeepAlive"),
    }
}
