// Harnesses for src/frame.rs
use super::*;
use crate::constants::MAX_FRAME_SIZE;

/// What the BEP3 framing rules say about the first frame of a buffer (reference model,
/// written from the specification text, not from frame.rs).
#[derive(PartialEq, Clone, Copy)]
pub(crate) enum Verdict {
    /// More bytes are needed *and* may legitimately be waited for.
    NeedMore,
    /// A complete frame of `usize` bytes is present and decodes.
    Frame(usize),
    /// A complete (or skippable) frame with an unknown id: skip `usize` bytes.
    Unknown(usize),
    /// The stream can never become a valid frame: the connection must be terminated.
    Fatal,
    /// Handshake prefix with 19 as first byte, fewer than 68 bytes, protocol string already
    /// wrong: rdest may wait or reject.
    NeedMoreOrFatal,
}

pub(crate) fn bep3_verdict(b: &[u8]) -> Verdict {
    let n = b.len();
    if n < 4 {
        return Verdict::NeedMore;
    }
    let len = ((b[0] as usize) << 24) | ((b[1] as usize) << 16) | ((b[2] as usize) << 8) | b[3] as usize;
    if len == 0 {
        return Verdict::Frame(4);
    }
    if n < 5 {
        return Verdict::NeedMore;
    }
    let id = b[4];
    if id == b'T' {
        // handshake dispatch byte ("BitTorrent"[3])
        if b[0] != 19 {
            return Verdict::Fatal;
        }
        // protocol string mismatch among the bytes already received (written out loop-free so
        // that harnesses can run with a tiny unwind bound)
        let proto = b"BitTorrent protocol";
        macro_rules! mism {
            ($($k:literal)*) => { false $(|| (1 + $k < n && b[1 + $k] != proto[$k]))* };
        }
        let mismatch = mism!(0 1 2 3 4 5 6 7 8 9 10 11 12 13 14 15 16 17 18);
        if n < 68 {
            return if mismatch { Verdict::NeedMoreOrFatal } else { Verdict::NeedMore };
        }
        return if mismatch { Verdict::Fatal } else { Verdict::Frame(68) };
    }
    if len > MAX_FRAME_SIZE {
        return Verdict::Fatal;
    }
    let fixed = match id {
        0 | 1 | 2 | 3 => Some(1),
        4 => Some(5),
        6 | 8 => Some(13),
        _ => None,
    };
    match fixed {
        Some(l) if len != l => return Verdict::Fatal,
        _ => {}
    }
    if id == 7 && len < 9 {
        return Verdict::Fatal;
    }
    if id <= 8 {
        if n >= 4 + len {
            Verdict::Frame(4 + len)
        } else {
            Verdict::NeedMore
        }
    } else {
        Verdict::Unknown(4 + len)
    }
}

fn parse_vs_reference<const N: usize>() {
    let buf: [u8; N] = kani::any();
    let n: usize = kani::any();
    kani::assume(n <= N);
    let input = &buf[..n];
    let mut crs = Cursor::new(input);
    let res = Frame::parse(&mut crs);
    let pos = crs.position() as usize;
    let v = bep3_verdict(input);
    match res {
        Ok(_) => {
            assert!(pos <= n, "a decoded frame never extends past the received bytes");
            assert!(v == Verdict::Frame(pos), "Ok exactly for a complete well-formed frame, consuming its length");
            kani::cover!(N < 68 || pos == 68, "handshake decoded (when it fits the bound)");
            kani::cover!(pos > 13, "a frame with payload decoded");
        }
        Err(Error::UnknownId(_)) => {
            assert!(v == Verdict::Unknown(pos), "unknown ids are skipped by exactly 4 + len bytes");
            kani::cover!(true, "unknown id seen");
        }
        Err(Error::Incomplete(_)) => {
            assert!(
                v == Verdict::NeedMore || v == Verdict::NeedMoreOrFatal,
                "the decoder waits for more bytes only when a valid frame can still complete (no stall on malformed length)"
            );
        }
        Err(_) => {
            assert!(v == Verdict::Fatal || v == Verdict::NeedMoreOrFatal, "fatal errors only for streams that cannot become valid");
            kani::cover!(true, "fatal error seen");
        }
    }
}

// @prop C06 C07 C09
// @fn Frame::parse, Frame::get_message_length, Frame::get_message_id, Handshake::check, Choke::check, Unchoke::check, Interested::check, NotInterested::check, Have::check, Bitfield::check, Request::check, Piece::check, Cancel::check, *::from
// @bound every byte string of 0..=20 bytes (all lengths, all contents)
// @outside buffers longer than 20 (quick) / 72 (thorough, handshake-sized) bytes; frames near 64 KiB are covered only through the length arithmetic
// @desc Frame::parse never panics and agrees with an independent BEP3 reference: Ok <=> complete well-formed frame (cursor = its length <= received), unknown id => skip 4+len, waits (Incomplete) only when a valid frame can still complete, malformed or oversized length prefixes are fatal errors
#[kani::proof]
#[kani::unwind(3)]
fn c06_frame_parse_vs_reference_20() {
    parse_vs_reference::<20>();
}

// @prop C06
// @tier thorough
// @fn Frame::parse (as above)
// @bound every byte string of 0..=72 bytes
// @desc as c06_frame_parse_vs_reference_20 with buffers up to 72 bytes (complete handshakes plus a following frame header)
#[kani::proof]
#[kani::unwind(76)]
fn c06_frame_parse_vs_reference_72() {
    parse_vs_reference::<72>();
}
