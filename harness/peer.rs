// Harnesses for src/peer.rs (manager-side per-peer state machine)
use super::*;
use crate::metainfo::verif_kani::mk_simple;

pub(crate) fn any_status() -> Status {
    match kani::any::<u8>() % 3 {
        0 => Status::Missing,
        1 => {
            let c: usize = kani::any();
            kani::assume(c >= 1 && c <= 3);
            Status::Reserved(c)
        }
        _ => Status::Have,
    }
}

pub(crate) fn any_statuses(n: usize) -> Vec<Status> {
    let mut v = Vec::with_capacity(n);
    let mut i = 0;
    while i < n {
        v.push(any_status());
        i += 1;
    }
    v
}

pub(crate) fn fresh_peer(n: usize) -> Peer {
    Peer {
        id: None,
        pieces: vec![false; n],
        job: None,
        piece_index: None,
        am_interested: false,
        am_choked: true,
        interested: false,
        choked: true,
        optimistic_unchoke: false,
        download_rate: None,
        uploaded_rate: None,
    }
}

/// Arbitrary peer record over `n` pieces (any flags, any advertised set, any assignment < n).
pub(crate) fn any_peer(n: usize) -> Peer {
    let mut p = fresh_peer(n);
    let mut i = 0;
    while i < n {
        p.pieces[i] = kani::any();
        i += 1;
    }
    if kani::any() {
        let idx: usize = kani::any();
        kani::assume(idx < n);
        p.piece_index = Some(idx);
    }
    p.id = if kani::any() { Some(kani::any()) } else { None };
    p.am_interested = kani::any();
    p.am_choked = kani::any();
    p.interested = kani::any();
    p.choked = kani::any();
    p.optimistic_unchoke = kani::any();
    p
}

// @prop C11
// @fn Peer::handle_init, Bitfield::from_vec
// @bound every status vector (Missing / Reserved(1..=3) / Have) over 0..=10 pieces
// @outside more than 10 pieces
// @desc the bitfield built for a new connection has bit i set exactly for the pieces whose status is Have (verified and stored), spare bits zero
#[kani::proof]
#[kani::unwind(22)]
fn c11_init_bitfield_marks_exactly_have() {
    let mut n = 0;
    while n <= 10 {
        let status = any_statuses(n);
        let mut p = fresh_peer(n);
        let id: [u8; 20] = kani::any();
        let InitCmd::SendBitfield { bitfield } = p.handle_init(id, &status);
        assert!(p.id == Some(id), "peer id recorded");
        let bits = bitfield.to_vec(n).expect("bitfield has ceil(n/8) bytes");
        let i: usize = kani::any();
        if i < n {
            assert!(bits[i] == (status[i] == Status::Have), "advertised <=> verified and stored");
        }
        let d = crate::serializer::Serializer::data(&bitfield);
        let j: usize = kani::any();
        if j >= n && j < (d.len() - 5) * 8 {
            assert!(d[5 + j / 8] & (0x80u8 >> (j % 8)) == 0, "spare bits zero");
        }
        n += 1;
    }
    kani::cover!(n == 11, "all piece counts visited");
}

// @prop C09 C08 C01
// @fn Peer::handle_request, Metainfo::piece, Metainfo::pieces_num
// @bound 3 pieces, every peer record, every status vector, every requested index in usize
// @desc the manager tells a connection to load and send a piece only if we have that peer unchoked, the index is in range, the piece is owned (Have), and the hash handed over is the torrent's hash for that index
#[kani::proof]
#[kani::unwind(6)]
fn c09_manager_serves_only_unchoked_owned() {
    let n = 3;
    let m = mk_simple(n, 4, 12);
    let status = any_statuses(n);
    let mut p = any_peer(n);
    let idx: usize = kani::any();
    let am_choked = p.am_choked;
    match p.handle_request(idx, &status, &m) {
        RequestCmd::LoadAndSendPiece { piece_index, piece_hash } => {
            assert!(!am_choked, "only while the peer is unchoked by us");
            assert!(piece_index == idx && idx < n, "index in range and unchanged");
            assert!(status[idx] == Status::Have, "only owned pieces");
            assert!(piece_hash[0] == (idx + 1) as u8, "hash of that very piece");
            kani::cover!(true, "serving path reachable");
        }
        RequestCmd::Ignore => {
            assert!(am_choked || idx >= n || status[idx] != Status::Have, "ignored only for a reason");
            kani::cover!(idx >= n, "out-of-range index ignored");
        }
    }
    std::mem::forget(p);
}

// @prop C14
// @fn Peer::handle_bitfield
// @bound every peer record over 3 pieces, every chosen index option, every unchoked_num in usize
// @desc on a bitfield the peer is unchoked exactly when fewer than 10 regular slots are in use and it was choked; the reply flags mirror the state change; interest follows the chosen piece
#[kani::proof]
#[kani::unwind(6)]
fn c14_bitfield_unchoke_rule() {
    let n = 3;
    let mut p = any_peer(n);
    let chosen: Option<usize> = if kani::any() { Some(kani::any::<usize>() % n) } else { None };
    let unchoked_num: usize = kani::any();
    let was_choked = p.am_choked;
    let BitfieldCmd::SendState { with_am_unchoked, am_interested } = p.handle_bitfield(chosen, unchoked_num);
    assert!(with_am_unchoked == (unchoked_num < 10 && was_choked), "unchoke <=> a slot is free and the peer was choked");
    assert!(p.am_choked == (was_choked && !with_am_unchoked), "state changes exactly when an Unchoke is sent");
    assert!(am_interested == chosen.is_some() && p.am_interested == am_interested, "interest mirrors the chosen piece");
    kani::cover!(with_am_unchoked, "unchoking path");
    kani::cover!(!with_am_unchoked && was_choked, "slots exhausted path");
    std::mem::forget(p);
}
