// Harnesses for src/peer.rs (manager-side per-peer state machine)
use super::*;
use crate::metainfo::verif_kani::mk_simple;

pub(crate) fn any_status() -> Status {
    match kani::any::<u8>() % 3 {
        0 => Status::Missing,
        1 => {
            let c: usize = kani::any();
            kani::assume(c >= 1 && c <= 3);
            Status::Reserved(c)
        }
        _ => Status::Have,
    }
}

pub(crate) fn any_statuses(n: usize) -> Vec<Status> {
    let mut v = Vec::with_capacity(n);
    let mut i = 0;
    while i < n {
        v.push(any_status());
        i += 1;
    }
    v
}

pub(crate) fn fresh_peer(n: usize) -> Peer {
    Peer {
        id: None,
        pieces: vec![false; n],
        job: None,
        piece_index: None,
        am_interested: false,
        am_choked: true,
        interested: false,
        choked: true,
        optimistic_unchoke: false,
        download_rate: None,
        uploaded_rate: None,
    }
}

/// Arbitrary peer record over `n` pieces (any flags, any advertised set, any assignment < n).
pub(crate) fn any_peer(n: usize) -> Peer {
    let mut p = fresh_peer(n);
    let mut i = 0;
    while i < n {
        p.pieces[i] = kani::any();
        i += 1;
    }
    if kani::any() {
        let idx: usize = kani::any();
        kani::assume(idx < n);
        p.piece_index = Some(idx);
    }
    p.id = if kani::any() { Some(kani::any()) } else { None };
    p.am_interested = kani::any();
    p.am_choked = kani::any();
    p.interested = kani::any();
    p.choked = kani::any();
    p.optimistic_unchoke = kani::any();
    p
}

// @prop C11
// @fn Peer::handle_init, Bitfield::from_vec
// @bound every status vector (Missing / Reserved(1..=3) / Have) over 0..=10 pieces
// @outside more than 10 pieces
// @desc the bitfield built for a new connection has bit i set exactly for the pieces whose status is Have (verified and stored), spare bits zero
#[kani::proof]
#[kani::unwind(22)]
fn c11_init_bitfield_marks_exactly_have() {
    let mut n = 0;
    while n <= 10 {
        let status = any_statuses(n);
        let mut p = fresh_peer(n);
        let id: [u8; 20] = kani::any();
        let InitCmd::SendBitfield { bitfield } = p.handle_init(id, &status);
        assert!(p.id == Some(id), "peer id recorded");
        let bits = bitfield.to_vec(n).expect("bitfield has ceil(n/8) bytes");
        let i: usize = kani::any();
        if i < n {
            assert!(bits[i] == (status[i] == Status::Have), "advertised <=> verified and stored");
        }
        let d = crate::serializer::Serializer::data(&bitfield);
        let j: usize = kani::any();
        if j >= n && j < (d.len() - 5) * 8 {
            assert!(d[5 + j / 8] & (0x80u8 >> (j % 8)) == 0, "spare bits zero");
        }
        n += 1;
    }
    kani::cover!(n == 11, "all piece counts visited");
}

// @prop C09 C08 C01
// @fn Peer::handle_request, Metainfo::piece, Metainfo::pieces_num
// @bound 3 pieces, every peer record, every status vector, every requested index in usize
// @desc the manager tells a connection to load and send a piece only if we have that peer unchoked, the index is in range, the piece is owned (Have), and the hash handed over is the torrent's hash for that index
#[kani::proof]
#[kani::unwind(6)]
fn c09_manager_serves_only_unchoked_owned() {
    let n = 3;
    let m = mk_simple(n, 4, 12);
    let status = any_statuses(n);
    let mut p = any_peer(n);
    let idx: usize = kani::any();
    let am_choked = p.am_choked;
    match p.handle_request(idx, &status, &m) {
        RequestCmd::LoadAndSendPiece { piece_index, piece_hash } => {
            assert!(!am_choked, "only while the peer is unchoked by us");
            assert!(piece_index == idx && idx < n, "index in range and unchanged");
            assert!(status[idx] == Status::Have, "only owned pieces");
            assert!(piece_hash[0] == (idx + 1) as u8, "hash of that very piece");
            kani::cover!(true, "serving path reachable");
        }
        RequestCmd::Ignore => {
            assert!(am_choked || idx >= n || status[idx] != Status::Have, "ignored only for a reason");
            kani::cover!(idx >= n, "out-of-range index ignored");
        }
    }
    std::mem::forget(p);
}

// @prop C14
// @fn Peer::handle_bitfield
// @bound every peer record over 3 pieces, every chosen index option, every unchoked_num in usize
// @desc on a bitfield the peer is unchoked only when fewer than 10 regular slots are in use and it was choked; the reply flags mirror the state change exactly; interest follows the chosen piece
#[kani::proof]
#[kani::unwind(6)]
fn c14_bitfield_unchoke_rule() {
    let n = 3;
    let mut p = any_peer(n);
    let chosen: Option<usize> = if kani::any() { Some(kani::any::<usize>() % n) } else { None };
    let unchoked_num: usize = kani::any();
    let was_choked = p.am_choked;
    let BitfieldCmd::SendState { with_am_unchoked, am_interested } = p.handle_bitfield(chosen, unchoked_num);
    // safety direction only: the property bounds the number of unchoked peers, it does not
    // oblige the client to use every free slot
    assert!(!with_am_unchoked || (unchoked_num < MAX_UNCHOKED && was_choked), "a peer is unchoked on Bitfield only while fewer than ten regular slots are in use (and only if it was choked)");
    assert!(p.am_choked == (was_choked && !with_am_unchoked), "state changes exactly when an Unchoke is sent");
    assert!(am_interested == chosen.is_some() && p.am_interested == am_interested, "interest mirrors the chosen piece");
    kani::cover!(with_am_unchoked, "unchoking path");
    kani::cover!(!with_am_unchoked && was_choked, "slots exhausted path");
    std::mem::forget(p);
}

// ---------------------------------------------------------------------------------------------
// C12: reservation bookkeeping, one manager step from an arbitrary consistent state.

const NP: usize = 3; // pieces

fn fetchers(peers: &[Peer; 2], connected: &[bool; 2], i: usize) -> usize {
    let mut c = 0;
    let mut k = 0;
    while k < 2 {
        if connected[k] && peers[k].piece_index == Some(i) && !peers[k].choked {
            c += 1;
        }
        k += 1;
    }
    c
}

/// The representation invariant the step is checked against (and must re-establish):
/// a piece is marked `Reserved(c)` only with 1 <= c <= number of connected, non-choking peers
/// that were asked for it ("no over-count").  It implies the property's clause "marked as
/// being fetched only while at least one connected peer that is not choking us has been asked
/// for it" and is preserved by every legal decrement / increment.
fn reservations_consistent(status: &Vec<Status>, peers: &[Peer; 2], connected: &[bool; 2]) -> bool {
    let mut ok = true;
    let mut i = 0;
    while i < NP {
        if let Status::Reserved(c) = status[i] {
            if c < 1 || c > fetchers(peers, connected, i) {
                ok = false;
            }
        }
        i += 1;
    }
    ok
}

/// Any answer the piece chooser may give for this peer (C13's contract): nothing, or a piece
/// the peer advertises and the client lacks.
fn any_choice(p: &Peer, status: &Vec<Status>) -> Option<usize> {
    if kani::any() {
        let i: usize = kani::any();
        kani::assume(i < NP);
        kani::assume(p.pieces[i] && status[i] != Status::Have);
        Some(i)
    } else {
        None
    }
}

fn release(status: &mut Vec<Status>, i: usize) {
    // src/session.rs handle_piece_cancel, transcribed (6 lines)
    status[i] = match status[i] {
        Status::Reserved(c) => match c >= 2 {
            true => Status::Reserved(c - 1),
            false => Status::Missing,
        },
        Status::Missing => Status::Missing,
        Status::Have => Status::Have,
    }
}

fn manager_step(event: u8) {
    let m = mk_simple(NP, 4, 12);
    let mut status = any_statuses(NP);
    let mut peers = [any_peer(NP), any_peer(NP)];
    let mut connected = [true, kani::any()];
    kani::assume(reservations_consistent(&status, &peers, &connected));
    let before = status.clone();
    let mut asked: Option<usize> = None; // piece the connection task is told to request

    match event {
        0 => peers[0].handle_choke(&mut status),
        1 => {
            let chosen = any_choice(&peers[0], &status);
            match peers[0].handle_unchoke(chosen, &mut status, &m) {
                UnchokeCmd::SendInterestedAndRequest(r) | UnchokeCmd::SendRequest(r) => asked = Some(r.piece_index),
                _ => {}
            }
        }
        2 => {
            let i: usize = kani::any();
            kani::assume(i < NP); // PeerHandler::handle_have validates the index first (c12_have_validate_spec)
            match peers[0].handle_have(i, &mut status, &m) {
                HaveCmd::SendInterestedAndRequest(r) => asked = Some(r.piece_index),
                _ => {}
            }
        }
        3 | 4 => {
            // PieceDone / PieceCancel from a connection that was assigned a piece
            // (src/session.rs handle_piece_done / handle_piece_cancel)
            let i = match peers[0].piece_index {
                Some(i) => i,
                None => {
                    kani::assume(false);
                    0
                }
            };
            if event == 3 {
                status[i] = Status::Have;
            } else {
                release(&mut status, i);
            }
            let chosen = any_choice(&peers[0], &status);
            match peers[0].handle_piece(chosen, &mut status, &m) {
                PieceCmd::SendRequest(r) => asked = Some(r.piece_index),
                _ => {}
            }
        }
        5 => {
            // KillReq: src/session.rs kill_peer
            if let Some(i) = peers[0].piece_index {
                if status[i] != Status::Have {
                    status[i] = Status::Missing;
                }
            }
            connected[0] = false;
        }
        6 => peers[0].handle_interested(),
        7 => {
            let chosen = any_choice(&peers[0], &status);
            let _ = peers[0].handle_not_interested(chosen);
        }
        _ => {
            let chosen = any_choice(&peers[0], &status);
            let _ = peers[0].handle_bitfield(chosen, kani::any());
        }
    }

    let mut i = 0;
    while i < NP {
        if before[i] == Status::Have {
            assert!(status[i] == Status::Have, "a piece once owned stays owned");
        }
        if status[i] == Status::Have && before[i] != Status::Have {
            assert!(event == 3, "ownership is created only by a finished piece");
        }
        i += 1;
    }
    assert!(
        reservations_consistent(&status, &peers, &connected),
        "a piece stays marked as being fetched although no connected, non-choking peer is asked for it (stale reservation)"
    );
    if let Some(i) = asked {
        assert!(i < NP && peers[0].pieces[i], "a peer is only asked for a piece it advertised");
        assert!(before[i] != Status::Have || event == 3, "and that the client lacks");
        assert!(status[i] != Status::Have, "a requested piece is one the client still lacks");
        assert!(!peers[0].choked, "requests go only to a peer that is not choking us");
        assert!(peers[0].piece_index == Some(i), "the manager records what it asked for");
    }
    kani::cover!(event == 0 || event >= 5 || asked.is_some(), "a request is issued (for the events that can issue one)");
    if event >= 6 {
        let mut i = 0;
        while i < NP {
            assert!(status[i] == before[i], "interest/bitfield events never touch the reservations");
            i += 1;
        }
    }
    kani::cover!(matches!(status[1], Status::Reserved(_)), "a reservation is in force after the step");
    std::mem::forget(peers);
}

// @prop C12
// @fn Peer::handle_choke
// @bound 3 pieces, 2 peers (the acting one arbitrary, a bystander arbitrary and possibly disconnected), every status vector with counts 1..=3, pre-state satisfying the no-over-count invariant
// @outside more than 2 peers / 3 pieces; the PeerHandler side of the protocol
// @assume pre-state: Reserved(c) => 1 <= c <= number of connected non-choking peers assigned that piece (the invariant every step is shown to re-establish)
// @desc a Choke from any state keeps owned pieces owned and leaves no piece reserved without a connected, non-choking peer that was asked for it (repeated chokes included)
#[kani::proof]
#[kani::unwind(6)]
fn c12_step_choke() {
    manager_step(0);
}

// @prop C12
// @fn Peer::handle_unchoke, req_data
// @bound as c12_step_choke; the chooser's answer is any piece the peer advertises and the client lacks, or none
// @assume the piece chooser obeys C13's contract (checked separately)
// @desc an Unchoke (also a repeated one, or one while a piece is already assigned) re-assigns the peer without leaving the previously assigned piece reserved by nobody; the request names an advertised, lacked piece
#[kani::proof]
#[kani::unwind(6)]
fn c12_step_unchoke() {
    manager_step(1);
}

// @prop C12
// @fn Peer::handle_have, req_data
// @bound as c12_step_choke; any announced index < pieces_num
// @desc a Have from any state reserves only for an unchoked idle peer and never over-counts
#[kani::proof]
#[kani::unwind(6)]
fn c12_step_have() {
    manager_step(2);
}

// @prop C12 C01
// @fn Peer::handle_piece, Session::handle_piece_done (status fragment transcribed)
// @bound as c12_step_choke; the finishing peer has an assigned piece
// @assume the 2-line status update of Session::handle_piece_done is transcribed in the harness (the async method itself needs the piece chooser: HashMap + shuffle)
// @desc a finished piece becomes owned and the follow-up assignment (also while the peer chokes us) leaves no stale reservation
#[kani::proof]
#[kani::unwind(6)]
fn c12_step_piece_done() {
    manager_step(3);
}

// @prop C12
// @fn Peer::handle_piece, Session::handle_piece_cancel (status fragment transcribed)
// @bound as c12_step_choke; the cancelling peer has an assigned piece
// @desc a cancelled piece is released and the follow-up assignment leaves no stale reservation
#[kani::proof]
#[kani::unwind(6)]
fn c12_step_piece_cancel() {
    manager_step(4);
}

// @prop C12 C20
// @fn Session::kill_peer (status fragment transcribed)
// @bound as c12_step_choke
// @desc a disconnect resets the peer's non-owned piece to Missing and leaves no reservation pointing at the vanished peer
#[kani::proof]
#[kani::unwind(6)]
fn c12_step_disconnect() {
    manager_step(5);
}

// @prop C12
// @fn Peer::handle_interested, Peer::handle_not_interested, Peer::handle_bitfield
// @bound as c12_step_choke
// @desc interest and bitfield events never change piece statuses
#[kani::proof]
#[kani::unwind(6)]
fn c12_step_interest_bitfield() {
    let e: u8 = kani::any();
    kani::assume(e >= 6 && e <= 8);
    manager_step(e);
}

// ---------------------------------------------------------------------------------------------
// C08: the manager side of "no piece data before a completed handshake".

fn served_without_handshake(known_region: bool) {
    let n = 3;
    let m = mk_simple(n, 4, 12);
    let status = any_statuses(n);
    // a peer record as created for an incoming connection (`Peer::new(None, ..)`): its id is
    // set only by handle_init, i.e. when a valid handshake arrived
    let mut p = fresh_peer(n);
    let chosen = if kani::any() { Some(kani::any::<usize>() % n) } else { None };
    let unchoked_num: usize = kani::any();
    if known_region {
        // recorded finding: a Bitfield from a peer that never sent a handshake unchokes it
        let _ = p.handle_bitfield(chosen, unchoked_num);
    }
    let idx: usize = kani::any();
    let cmd = p.handle_request(idx, &status, &m);
    let served = matches!(cmd, RequestCmd::LoadAndSendPiece { .. });
    kani::cover!(!served, "request ignored");
    assert!(!(served && p.id.is_none()), "the manager tells a connection to load and send a piece although that peer never completed a handshake");
    std::mem::forget(p);
}

// @prop C08
// @fn Peer::handle_request
// @bound a freshly accepted peer (no handshake yet), every status vector over 3 pieces, every requested index
// @desc a peer that has sent nothing but a Request before its handshake is not served
#[kani::proof]
#[kani::unwind(6)]
fn c08_fresh_peer_request_is_ignored() {
    served_without_handshake(false);
}

// @prop C08
// @known C08-bitfield-before-handshake
// @known-check although that peer never completed a handshake
// @fn Peer::handle_bitfield, Peer::handle_request
// @bound a freshly accepted peer, any Bitfield outcome (chosen piece or none, any slot count), then any Request
// @desc twin restricted to the recorded finding: a Bitfield received before any handshake unchokes the peer, after which its Requests for owned pieces are served although no handshake was validated
#[kani::proof]
#[kani::unwind(6)]
fn c08_known_bitfield_before_handshake_is_served() {
    served_without_handshake(true);
}

// ---------------------------------------------------------------------------------------------
// C12: a short manager history that crosses a Choke.  The connection task keeps its partial
// piece when the peer chokes us (PeerHandler::handle_choke only sets a flag and informs the
// manager), so PieceDone / PieceCancel may still arrive afterwards; Session::handle_piece_done
// and handle_piece_cancel panic when the peer record has no assigned piece.

// @prop C12
// @fn Peer::handle_unchoke, Peer::handle_choke, Peer::handle_have, Peer::handle_piece, Session::handle_piece_done / handle_piece_cancel (fragments transcribed, including their panic!)
// @bound 3 pieces, one peer; history: [Have(i)] Unchoke(choice) Choke then PieceDone or PieceCancel, every advertised set and every chooser answer
// @assume the connection task can report PieceDone/PieceCancel after a Choke because it keeps its piece buffer across the Choke (PeerHandler::handle_choke, read; not encodable: nested coroutine)
// @desc after unchoke -> (piece requested) -> choke, a late PieceDone or PieceCancel from that connection does not make the manager panic ("Piece downloaded but not requested"), and leaves no stale reservation
#[kani::proof]
#[kani::unwind(6)]
fn c12_history_done_or_cancel_after_choke() {
    let m = mk_simple(NP, 4, 12);
    let mut status = vec![Status::Missing, Status::Missing, Status::Missing];
    let mut peers = [fresh_peer(NP), fresh_peer(NP)];
    let connected = [true, false];
    let mut i = 0;
    while i < NP {
        peers[0].pieces[i] = kani::any();
        i += 1;
    }
    // Unchoke: the manager assigns a piece (the history is only interesting if it does)
    let chosen = any_choice(&peers[0], &status);
    kani::assume(chosen.is_some());
    let _ = peers[0].handle_unchoke(chosen, &mut status, &m);
    // Choke
    peers[0].handle_choke(&mut status);
    // late PieceDone / PieceCancel (src/session.rs)
    let done: bool = kani::any();
    match peers[0].piece_index {
        Some(idx) => {
            if done {
                status[idx] = Status::Have;
            } else {
                release(&mut status, idx);
            }
        }
        None => panic!("Piece downloaded but not requested (manager panic: the peer record lost its assignment on Choke)"),
    }
    let chosen = any_choice(&peers[0], &status);
    let _ = peers[0].handle_piece(chosen, &mut status, &m);
    assert!(reservations_consistent(&status, &peers, &connected), "no stale reservation after the history");
    kani::cover!(done, "late PieceDone");
    kani::cover!(!done, "late PieceCancel");
    std::mem::forget(peers);
}

// @prop C10 C01
// @fn req_data, Peer::handle_unchoke, Metainfo::piece_length, Metainfo::piece
// @bound 3 pieces of a 10-byte torrent with piece length 4 (last piece 2 bytes), fresh peer advertising everything, every chooser answer
// @desc the assignment handed to the connection task names the chosen piece, that piece's own length (the shorter last piece included) and the torrent's hash for exactly that piece
#[kani::proof]
#[kani::unwind(6)]
fn c10_assignment_carries_piece_length_and_hash() {
    let m = mk_simple(NP, 4, 10);
    let mut status = vec![Status::Missing, Status::Missing, Status::Missing];
    let mut p = fresh_peer(NP);
    p.pieces = vec![true, true, true];
    let i: usize = kani::any();
    kani::assume(i < NP);
    match p.handle_unchoke(Some(i), &mut status, &m) {
        UnchokeCmd::SendInterestedAndRequest(r) | UnchokeCmd::SendRequest(r) => {
            assert!(r.piece_index == i, "names the chosen piece");
            assert!(r.piece_length == if i < 2 { 4 } else { 2 }, "with that piece's own length");
            assert!(r.piece_hash[0] == (i + 1) as u8, "and the torrent's hash for that piece");
            kani::cover!(i == 2, "the shorter last piece");
        }
        _ => panic!("an assignment must produce a request"),
    }
    std::mem::forget(p);
}
