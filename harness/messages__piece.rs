// Harnesses for src/messages/piece.rs
use super::*;
use crate::frame::Frame;
use std::io::Cursor;

fn any_block<const N: usize>() -> Vec<u8> {
    let len: usize = kani::any();
    kani::assume(len <= N);
    let bytes: [u8; N] = kani::any();
    bytes[..len].to_vec()
}

fn piece_roundtrip<const N: usize>() {
    let i: u32 = kani::any();
    let b: u32 = kani::any();
    let block = any_block::<N>();
    let n = block.len();
    let p = Piece::new(i as usize, b as usize, block.clone());
    let d = p.data();
    assert!(d.len() == 13 + n, "4 + 9 + block bytes");
    let l = (9 + n) as u32;
    assert!(d[0] == (l >> 24) as u8 && d[1] == (l >> 16) as u8 && d[2] == (l >> 8) as u8 && d[3] == l as u8, "length prefix = 9 + block length");
    assert!(d[4] == 7, "id 7");
    assert!(d[5] == (i >> 24) as u8 && d[6] == (i >> 16) as u8 && d[7] == (i >> 8) as u8 && d[8] == i as u8, "index big endian");
    assert!(d[9] == (b >> 24) as u8 && d[10] == (b >> 16) as u8 && d[11] == (b >> 8) as u8 && d[12] == b as u8, "begin big endian");
    let k: usize = kani::any();
    if k < n {
        assert!(d[13 + k] == block[k], "payload copied verbatim");
    }
    let mut crs = Cursor::new(&d[..]);
    match Frame::parse(&mut crs) {
        Ok(Frame::Piece(q)) => {
            assert!(q.piece_index == i && q.block_begin == b, "decoded fields equal");
            assert!(q.block.len() == n, "decoded block length equal");
            if k < n {
                assert!(q.block[k] == block[k], "decoded block bytes equal");
            }
            assert!(crs.position() as usize == 13 + n, "consumes exactly its length");
            kani::cover!(n == N, "longest block in bound");
        }
        _ => panic!("piece bytes did not decode to Piece"),
    }
    kani::cover!(n == 0, "empty block");
}

// @prop C07
// @fn Piece::new, Piece::data, Piece::check, Piece::from, Frame::parse
// @bound all (index, begin) in u32^2, every block of 0..=8 symbolic bytes
// @outside blocks longer than 8 bytes (quick) / 32 bytes (thorough): the copy is length-uniform but that is an argument, not a solver result
// @desc Piece bytes == <len=9+n><id=7><index><begin><block>; decoding yields the same fields/payload and consumes 13+n bytes
#[kani::proof]
#[kani::unwind(20)]
fn c07_piece_layout_and_roundtrip_8() {
    piece_roundtrip::<8>();
}

// @prop C07
// @tier thorough
// @fn Piece::new, Piece::data, Piece::check, Piece::from, Frame::parse
// @bound all (index, begin) in u32^2, every block of 0..=32 symbolic bytes
// @desc as c07_piece_layout_and_roundtrip_8 with blocks up to 32 bytes
#[kani::proof]
#[kani::unwind(40)]
fn c07_piece_layout_and_roundtrip_32() {
    piece_roundtrip::<32>();
}

// @prop C01 C10
// @fn Piece::validate
// @bound all (index, begin) in u32^2, blocks 0..=4 bytes, all expected (index, begin, length) in usize^3
// @desc Piece::validate(i, b, l) is Ok exactly when the block's index, begin and byte count equal the expected ones
#[kani::proof]
#[kani::unwind(8)]
fn c01_piece_validate_spec() {
    let p = Piece {
        piece_index: kani::any(),
        block_begin: kani::any(),
        block: any_block::<4>(),
    };
    let (i, b, l): (usize, usize, usize) = (kani::any(), kani::any(), kani::any());
    let ok = p.validate(i, b, l).is_ok();
    kani::cover!(ok, "accepting path");
    kani::cover!(!ok && p.piece_index as usize == i && p.block_begin as usize == b, "rejected only for its length");
    assert!(ok == (p.piece_index as usize == i && p.block_begin as usize == b && p.block.len() == l), "exact match required");
}
