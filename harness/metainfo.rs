// Harnesses for src/metainfo.rs
use super::*;

/// Build a Metainfo directly (fields are private to this module tree).
pub(crate) fn mk_metainfo(piece_length: u64, pieces: Vec<[u8; HASH_SIZE]>, files: Vec<File>, name: &str) -> Metainfo {
    Metainfo {
        announce: String::new(),
        name: String::from(name),
        piece_length,
        pieces,
        files,
        info_hash: [0; HASH_SIZE],
    }
}

/// n pieces with distinct concrete hashes (hash[0] = index + 1), one file of `total` bytes.
pub(crate) fn mk_simple(n: usize, piece_length: u64, total: u64) -> Metainfo {
    let mut pieces = Vec::with_capacity(n);
    let mut i = 0;
    while i < n {
        let mut h = [0u8; HASH_SIZE];
        h[0] = (i + 1) as u8;
        pieces.push(h);
        i += 1;
    }
    mk_metainfo(
        piece_length,
        pieces,
        vec![File {
            length: total,
            path: String::from("f"),
        }],
        "f",
    )
}

pub(crate) fn set_info_hash(m: &mut Metainfo, h: [u8; HASH_SIZE]) {
    m.info_hash = h;
}

pub(crate) fn set_announce(m: &mut Metainfo, a: &str) {
    m.announce = String::from(a);
}

fn partition<const MAXN: usize>() {
    let pl: u64 = kani::any();
    let total: u64 = kani::any();
    kani::assume(pl >= 1 && pl <= 1 << 16);
    kani::assume(total >= 1 && total <= 1 << 20);
    let n = ((total + pl - 1) / pl) as usize;
    kani::assume(n <= MAXN);
    let m = mk_simple(n, pl, total);
    let mut sum: u64 = 0;
    let mut i = 0;
    while i < n {
        let l = m.piece_length(i) as u64;
        assert!(l >= 1 && l <= pl, "every piece is 1..=piece_length bytes");
        if i + 1 < n {
            assert!(l == pl, "all pieces but the last are full");
        }
        sum += l;
        i += 1;
    }
    assert!(sum == total, "piece lengths partition the content exactly");
    kani::cover!(n == MAXN && total % pl != 0, "short last piece at the largest piece count");
    kani::cover!(n >= 2 && total % pl == 0, "content is a whole number of pieces");
}

// @prop C03 C10
// @fn Metainfo::piece_length, Metainfo::total_length, Metainfo::pieces_num
// @bound piece_length 1..=65536, total 1..=2^20, piece count ceil(total/piece_length) <= 4, single file
// @outside more than 4 (quick) / 8 (thorough) pieces, totals above 1 MiB
// @desc the per-piece lengths are each 1..=piece_length, all but the last are full, and they sum to the total length
#[kani::proof]
#[kani::unwind(7)]
fn c03_piece_lengths_partition_4() {
    partition::<4>();
}

// @prop C03 C10
// @tier thorough
// @fn Metainfo::piece_length, Metainfo::total_length
// @bound as c03_piece_lengths_partition_4 with up to 8 pieces
// @desc per-piece lengths partition the content, up to 8 pieces
#[kani::proof]
#[kani::unwind(11)]
fn c03_piece_lengths_partition_8() {
    partition::<8>();
}

fn piece_pos_for(pl: u64) {
    let pos: usize = (kani::any::<u32>() & 0xFFF_FFFF) as usize;
    let m = mk_metainfo(pl, vec![[0u8; HASH_SIZE]; 2], vec![], "t");
    let p = m.piece_pos(pos);
    assert!(p.file_index == pos / pl as usize, "piece index = offset / piece_length");
    assert!(p.byte_index == pos % pl as usize, "byte index = offset % piece_length");
    std::mem::forget(m);
}

// @prop C03
// @fn Metainfo::piece_pos
// @bound every byte offset in 0..2^28 for the piece lengths 1, 3, 4, 16384, 262144 and 1000003 (division by a symbolic divisor did not finish, DESIGN 3.12); two piece hashes, so offsets in and beyond the last piece occur
// @desc piece_pos maps a byte offset of the concatenated content to (offset / piece_length, offset % piece_length): the position arithmetic behind every file's start and end, including the end position one past the last piece
#[kani::proof]
fn c03_piece_pos_is_div_mod() {
    piece_pos_for(1);
    piece_pos_for(3);
    piece_pos_for(4);
    piece_pos_for(16384);
    piece_pos_for(262144);
    piece_pos_for(1000003);
    kani::cover!(true, "reached");
}

// @prop C03
// @tier off
// @fn Metainfo::file_piece_ranges, Metainfo::piece_pos
// @bound piece_length 1..=65536, 3 files with lengths 0..=2^20 each (zero-length files and several files inside one piece included)
// @outside more than 3 files
// @desc each file's start/end position is (offset / piece_length, offset % piece_length) of its running byte offset in the concatenated content
#[kani::proof]
#[kani::unwind(4)]
fn c03_file_ranges_follow_offsets() {
    let pl: u64 = kani::any();
    kani::assume(pl >= 1 && pl <= 1 << 16);
    let lens: [u64; 3] = kani::any();
    kani::assume(lens[0] <= 1 << 20 && lens[1] <= 1 << 20 && lens[2] <= 1 << 20);
    let files = vec![
        File { length: lens[0], path: String::from("a") },
        File { length: lens[1], path: String::from("b") },
        File { length: lens[2], path: String::from("c") },
    ];
    let m = mk_metainfo(pl, vec![[0u8; HASH_SIZE]], files, "t");
    let ranges = m.file_piece_ranges();
    assert!(ranges.len() == 3);
    let mut off: u64 = 0;
    let mut k = 0;
    while k < 3 {
        let (_, start, end) = &ranges[k];
        assert!(start.file_index as u64 == off / pl && start.byte_index as u64 == off % pl, "start = position of the running offset");
        off += lens[k];
        assert!(end.file_index as u64 == off / pl && end.byte_index as u64 == off % pl, "end = position of offset + length");
        k += 1;
    }
    kani::cover!(lens[1] == 0 && lens[0] % pl != 0, "zero-length file in the middle of a piece");
    kani::cover!(lens[0] + lens[1] < pl && lens[1] > 0, "two files inside the first piece");
}

// @prop C17
// @fn Metainfo::piece_length, Metainfo::piece, Metainfo::total_length, Metainfo::file_piece_ranges
// @bound any piece_length in 1..=u64::MAX/4, 1..=3 piece hashes, 0..=2 files with any u64 lengths whose sum fits u64::MAX/4 (what from_bencode can return after the zero/empty/overflow rejections)
// @assume the state is one from_bencode returns: piece_length >= 1, at least one piece hash, file lengths summing without overflow (c17_from_bencode_rejects_* check those rejections)
// @desc every accessor is panic-free for every valid piece index of any accepted torrent geometry (no division by zero, no underflow, no overflow)
#[kani::proof]
#[kani::unwind(6)]
fn c17_accessors_safe_on_accepted_geometry() {
    let pl: u64 = kani::any();
    kani::assume(pl >= 1 && pl <= u64::MAX / 4);
    let n: usize = kani::any();
    kani::assume(n >= 1 && n <= 3);
    let nf: usize = kani::any();
    kani::assume(nf <= 2);
    let lens: [u64; 2] = kani::any();
    kani::assume(lens[0] <= u64::MAX / 8 && lens[1] <= u64::MAX / 8);
    let mut files = Vec::new();
    let mut k = 0;
    while k < nf {
        files.push(File { length: lens[k], path: String::from("p") });
        k += 1;
    }
    let mut m = mk_simple(n, pl, 0);
    m.files = files;
    let _ = m.total_length();
    let _ = m.pieces_num();
    let i: usize = kani::any();
    kani::assume(i < n);
    let l = m.piece_length(i);
    assert!(l >= 1 && l as u64 <= pl, "piece length in range");
    let _ = m.piece(i);
    let r = m.file_piece_ranges();
    assert!(r.len() == nf);
    kani::cover!(nf == 2 && n == 3, "largest geometry in bound");
}

// ---------------------------------------------------------------------------------------------
// Skeleton documents: concrete structure (so the recursive decoder executes along one concrete
// control path, like a test) with symbolic *data*: piece hash bytes, one decimal digit in each
// numeric field, name/announce bytes.

fn skeleton_single_file() {
    let mut doc: Vec<u8> = Vec::with_capacity(128);
    let url: [u8; 3] = kani::any();
    kani::assume(url[0] < 0x80 && url[1] < 0x80 && url[2] < 0x80); // UTF-8
    let name: u8 = kani::any();
    kani::assume(name < 0x80);
    let dlen: u8 = kani::any();
    kani::assume(dlen >= b'0' && dlen <= b'9');
    let dpl: u8 = kani::any();
    kani::assume(dpl >= b'1' && dpl <= b'9');
    let hash: [u8; 20] = kani::any();
    doc.extend_from_slice(b"d8:announce3:");
    doc.extend_from_slice(&url);
    doc.extend_from_slice(b"4:infod6:lengthi");
    doc.push(dlen);
    doc.extend_from_slice(b"e4:name1:");
    doc.push(name);
    doc.extend_from_slice(b"12:piece lengthi");
    doc.push(dpl);
    doc.extend_from_slice(b"e6:pieces20:");
    doc.extend_from_slice(&hash);
    doc.extend_from_slice(b"ee");
    let res = Metainfo::from_bencode(&doc);
    match &res {
        Ok(m) => {
            assert!(m.announce.as_bytes().len() == 3 && m.announce.as_bytes()[0] == url[0] && m.announce.as_bytes()[2] == url[2], "tracker url as in the document");
            assert!(m.name.as_bytes().len() == 1 && m.name.as_bytes()[0] == name, "name as in the document");
            assert!(m.piece_length == (dpl - b'0') as u64, "piece length as in the document");
            assert!(m.pieces.len() == 1, "one piece hash");
            let k: usize = kani::any();
            if k < 20 {
                assert!(m.pieces[0][k] == hash[k], "piece hash bytes as in the document");
            }
            assert!(m.files.len() == 1 && m.files[0].length == (dlen - b'0') as u64, "single file with the declared length");
            assert!(m.files[0].path.as_bytes()[0] == name, "single file is named after the torrent");
            kani::cover!(true, "document accepted");
        }
        Err(_) => panic!("a well-formed single-file document must be accepted"),
    }
    std::mem::forget(res);
}

// @prop C17
// @tier off
// @fn Metainfo::from_bencode, Metainfo::parse, find_announce, find_name, find_piece_length, find_pieces, find_length, BDecoder::from_array, DeepFinder::find_first, calculate_hash
// @bound one concrete single-file document skeleton; symbolic: 3 announce bytes, 1 name byte (ASCII), one decimal digit of length (0..9) and of piece length (1..9), all 20 piece-hash bytes
// @outside other document shapes, multi-digit numbers, extra keys (the recursive decoder is executed along one concrete control path only; see DESIGN 3.7)
// @desc on this document shape the parsed model equals what the dictionary says: tracker url, name, piece length, the piece hash bytes, one file with the declared length
#[kani::proof]
#[kani::unwind(24)]
fn c17_single_file_skeleton_fields() {
    skeleton_single_file();
}

// ---------------------------------------------------------------------------------------------
// Field extraction from an already decoded dictionary (the decoder itself is out of reach):
// dictionaries are built directly, values are symbolic.

fn key(s: &[u8]) -> Vec<u8> {
    s.to_vec()
}

fn torrent_dict(info: HashMap<Vec<u8>, BValue>) -> HashMap<Vec<u8>, BValue> {
    let mut top: HashMap<Vec<u8>, BValue> = HashMap::new();
    top.insert(key(b"info"), BValue::Dict(info));
    top
}

// @prop C17
// @fn Metainfo::find_length, Metainfo::find_piece_length
// @bound every i64 value of "length" and of "piece length" in a hand-built info dictionary; "length" present (any value) or absent
// @desc length / piece length are read exactly as the dictionary says: every non-negative integer (zero included) is returned unchanged, negative ones are refused, absent keys are reported as absent
#[kani::proof]
#[kani::unwind(4)]
fn c17_numeric_fields_read_exactly() {
    // (map shapes are concrete: a symbolic number of entries turns every slot access of the
    //  HashMap model into a symbolic-index write over boxed values)
    let len: i64 = kani::any();
    let pl: i64 = kani::any();
    let mut info: HashMap<Vec<u8>, BValue> = HashMap::new();
    info.insert(key(b"length"), BValue::Int(len));
    info.insert(key(b"piece length"), BValue::Int(pl));
    let top = torrent_dict(info);
    let got_len = Metainfo::find_length(&top);
    if len >= 0 {
        assert!(got_len == Some(len as u64), "a non-negative length (zero included) is returned as is");
    } else {
        assert!(got_len.is_none(), "a negative length is reported as absent");
    }
    match Metainfo::find_piece_length(&top) {
        Ok(v) => assert!(pl >= 0 && v == pl as u64, "piece length returned as is"),
        Err(_) => assert!(pl < 0, "only a negative piece length is refused"),
    }
    kani::cover!(len == 0, "zero length");
    kani::cover!(len == i64::MAX, "huge length");
    std::mem::forget(top);
    // key absent
    let mut info2: HashMap<Vec<u8>, BValue> = HashMap::new();
    info2.insert(key(b"piece length"), BValue::Int(1));
    let top2 = torrent_dict(info2);
    assert!(Metainfo::find_length(&top2).is_none(), "absent length is reported as absent");
    std::mem::forget(top2);
}

fn pieces_case(l: usize) {
    let bytes: [u8; 41] = kani::any();
    let mut info: HashMap<Vec<u8>, BValue> = HashMap::new();
    info.insert(key(b"pieces"), BValue::ByteStr(bytes[..l].to_vec()));
    let top = torrent_dict(info);
    let res = Metainfo::find_pieces(&top);
    match &res {
        Ok(v) => {
            assert!(l % 20 == 0 && v.len() == l / 20, "one hash per 20 bytes");
            let k: usize = kani::any();
            if k < l {
                assert!(v[k / 20][k % 20] == bytes[k], "hashes are the 20-byte chunks in order");
            }
        }
        Err(_) => assert!(l % 20 != 0, "only a length that is not a multiple of 20 is refused"),
    }
    std::mem::forget(res);
    std::mem::forget(top);
}

// @prop C17
// @fn Metainfo::find_pieces
// @bound "pieces" strings of 0, 19, 20, 21 and 40 symbolic bytes
// @desc the ordered piece hashes are exactly the 20-byte chunks of the pieces string; lengths that are not a multiple of 20 are refused
#[kani::proof]
#[kani::unwind(6)]
fn c17_piece_hashes_are_the_chunks_in_order() {
    pieces_case(0);
    pieces_case(19);
    pieces_case(20);
    pieces_case(21);
    pieces_case(40);
    kani::cover!(true, "reached");
}

// @prop C17
// @tier off
// @fn Metainfo::find_files, Metainfo::file_list
// @bound a "files" list of four entries: two dictionaries with any non-negative i64 length and paths "a", "b", around two malformed ones (a non-dictionary, a negative length)
// @desc the file list keeps the listed order, keeps every entry with a non-negative length and a UTF-8 path (zero lengths included), and skips only malformed entries
#[kani::proof]
#[kani::unwind(8)]
fn c17_file_list_order_and_skipping() {
    // well-formedness of each entry is concrete (structurally non-negative lengths, ASCII
    // paths), the values are symbolic; malformed entries are concrete
    let l0: i64 = (kani::any::<u64>() >> 1) as i64;
    let l1: i64 = (kani::any::<u64>() >> 1) as i64;
    // (paths are concrete: UTF-8 validation of symbolic bytes inside the filter_map chain did
    //  not finish)
    let p0: u8 = b'a';
    let p1: u8 = b'b';
    let mut f0: HashMap<Vec<u8>, BValue> = HashMap::new();
    f0.insert(key(b"length"), BValue::Int(l0));
    f0.insert(key(b"path"), BValue::ByteStr(vec![p0]));
    let mut neg: HashMap<Vec<u8>, BValue> = HashMap::new();
    neg.insert(key(b"length"), BValue::Int(-1));
    neg.insert(key(b"path"), BValue::ByteStr(vec![b'n']));
    let mut f1: HashMap<Vec<u8>, BValue> = HashMap::new();
    f1.insert(key(b"length"), BValue::Int(l1));
    f1.insert(key(b"path"), BValue::ByteStr(vec![p1]));
    let list = vec![BValue::Dict(f0), BValue::Int(7), BValue::Dict(neg), BValue::Dict(f1)];
    let mut info: HashMap<Vec<u8>, BValue> = HashMap::new();
    info.insert(key(b"files"), BValue::List(list));
    let top = torrent_dict(info);
    let files = Metainfo::find_files(&top).expect("a files list is present");
    assert!(files.len() == 2, "exactly the well-formed entries are kept (non-dictionary and negative length skipped)");
    assert!(files[0].length == l0 as u64 && files[0].path.as_bytes()[0] == p0, "first listed entry first, length and path as listed");
    assert!(files[1].length == l1 as u64 && files[1].path.as_bytes()[0] == p1, "last listed entry second");
    kani::cover!(l0 == 0 && l1 == i64::MAX, "zero-length and huge files kept");
    std::mem::forget(files);
    std::mem::forget(top);
}

fn file_ranges_two_files(pl: u64) {
    // lengths structurally below 2^31
    let l0: u64 = (kani::any::<u32>() & 0x7FFF_FFFF) as u64;
    let l1: u64 = (kani::any::<u32>() & 0x7FFF_FFFF) as u64;
    let files = vec![
        File { length: l0, path: String::from("a") },
        File { length: l1, path: String::from("b") },
    ];
    let m = mk_metainfo(pl, vec![[0u8; HASH_SIZE]], files, "t");
    let r = m.file_piece_ranges();
    assert!(r.len() == 2, "one range per listed file, in order");
    let p = pl as usize;
    let (a, b) = (l0 as usize, l1 as usize);
    assert!(r[0].1.file_index == 0 && r[0].1.byte_index == 0, "first file starts at offset 0");
    assert!(r[0].2.file_index == a / p && r[0].2.byte_index == a % p, "first file ends at its length");
    assert!(r[1].1.file_index == a / p && r[1].1.byte_index == a % p, "second file starts where the first ends (also inside a piece, also when the first is empty)");
    assert!(r[1].2.file_index == (a + b) / p && r[1].2.byte_index == (a + b) % p, "second file ends at the sum of the lengths");
    std::mem::forget(r);
    std::mem::forget(m);
}

// @prop C03
// @fn Metainfo::file_piece_ranges, Metainfo::piece_pos
// @bound two files with every pair of lengths in 0..2^31 (zero-length files, files inside one piece, files ending on a piece boundary included), piece lengths 4 and 16384
// @outside more than two files; symbolic piece lengths (DESIGN 3.12); the extractor that consumes the ranges (3.10)
// @desc each file's start/end position is (offset / piece_length, offset % piece_length) of its running byte offset in the concatenated content: the second file starts exactly where the first ends
#[kani::proof]
#[kani::unwind(4)]
fn c03_file_ranges_two_files_running_offset() {
    file_ranges_two_files(4);
    file_ranges_two_files(16384);
    kani::cover!(true, "reached");
}

// @prop C03
// @tier thorough
// @fn Metainfo::file_piece_ranges, Metainfo::piece_pos
// @bound two files with every pair of lengths in 0..2^31, piece lengths 3 and 1000003 (not powers of two: division by these constants is what makes the query slow, about 5 min)
// @outside as c03_file_ranges_two_files_running_offset
// @desc as c03_file_ranges_two_files_running_offset for piece lengths that are not powers of two
#[kani::proof]
#[kani::unwind(4)]
fn c03_file_ranges_two_files_odd_piece_lengths() {
    file_ranges_two_files(3);
    file_ranges_two_files(1000003);
    kani::cover!(true, "reached");
}

// @prop C17
// @tier off
// @fn Metainfo::file_list
// @bound (no result within 420 s: the three chained filter_map closures over HashMap lookups plus Vec<File> collection) a decoded "files" list of two well-formed dictionaries whose paths are "b" then "a" (listed order differs from lexicographic order), any non-negative i64 lengths
// @outside longer lists, malformed entries between them (c17_file_list_order_and_skipping, off: did not finish), symbolic paths (UTF-8 validation of symbolic bytes inside the filter_map chain did not finish), the decoder that produces the list (3.7)
// @desc the file list keeps the order in which the document lists the files (not, e.g., path order), with each entry's length and path as listed: byte offsets of files in the content depend on this order
#[kani::proof]
#[kani::unwind(6)]
fn c17_file_list_keeps_listed_order_2() {
    let l0: i64 = (kani::any::<u64>() >> 1) as i64;
    let l1: i64 = (kani::any::<u64>() >> 1) as i64;
    let mut f0: HashMap<Vec<u8>, BValue> = HashMap::new();
    f0.insert(key(b"length"), BValue::Int(l0));
    f0.insert(key(b"path"), BValue::ByteStr(vec![b'b']));
    let mut f1: HashMap<Vec<u8>, BValue> = HashMap::new();
    f1.insert(key(b"length"), BValue::Int(l1));
    f1.insert(key(b"path"), BValue::ByteStr(vec![b'a']));
    let list = vec![BValue::Dict(f0), BValue::Dict(f1)];
    let files = Metainfo::file_list(&list);
    assert!(files.len() == 2, "both well-formed entries are kept");
    assert!(files[0].length == l0 as u64 && files[0].path.as_bytes()[0] == b'b', "first listed entry first, length and path as listed");
    assert!(files[1].length == l1 as u64 && files[1].path.as_bytes()[0] == b'a', "second listed entry second");
    kani::cover!(l0 == 0 && l1 == i64::MAX, "zero-length and huge files kept");
    std::mem::forget(files);
    std::mem::forget(list);
}

fn file_ranges_three_files(pl: u64) {
    // lengths structurally below 2^31
    let l0: u64 = (kani::any::<u32>() & 0x7FFF_FFFF) as u64;
    let l1: u64 = (kani::any::<u32>() & 0x7FFF_FFFF) as u64;
    let l2: u64 = (kani::any::<u32>() & 0x7FFF_FFFF) as u64;
    let files = vec![
        File { length: l0, path: String::from("a") },
        File { length: l1, path: String::from("b") },
        File { length: l2, path: String::from("c") },
    ];
    let m = mk_metainfo(pl, vec![[0u8; HASH_SIZE]], files, "t");
    let r = m.file_piece_ranges();
    assert!(r.len() == 3, "one range per listed file, in order");
    let p = pl as usize;
    let (a, b, c) = (l0 as usize, l1 as usize, l2 as usize);
    assert!(r[0].1.file_index == 0 && r[0].1.byte_index == 0, "first file starts at offset 0");
    assert!(r[0].2.file_index == a / p && r[0].2.byte_index == a % p, "first file ends at its length");
    assert!(r[1].1.file_index == a / p && r[1].1.byte_index == a % p, "second file starts where the first ends");
    assert!(r[1].2.file_index == (a + b) / p && r[1].2.byte_index == (a + b) % p, "second file ends at the sum of the first two lengths");
    assert!(r[2].1.file_index == (a + b) / p && r[2].1.byte_index == (a + b) % p, "third file starts where the second ends (the running offset accumulates over all earlier files)");
    assert!(r[2].2.file_index == (a + b + c) / p && r[2].2.byte_index == (a + b + c) % p, "third file ends at the sum of all lengths");
    std::mem::forget(r);
    std::mem::forget(m);
}

// @prop C03
// @fn Metainfo::file_piece_ranges, Metainfo::piece_pos
// @bound three files with every triple of lengths in 0..2^31 (zero-length files, several files inside one piece, files ending on a piece boundary included), piece lengths 4 and 16384
// @outside more than three files; lengths >= 2^31; symbolic piece lengths (DESIGN 3.12); the extractor that consumes the ranges (3.10)
// @desc the running byte offset accumulates over ALL earlier files: the third file starts at len0+len1 and ends at len0+len1+len2, each mapped to (offset / piece_length, offset % piece_length)
#[kani::proof]
#[kani::unwind(5)]
fn c03_file_ranges_three_files_running_offset() {
    file_ranges_three_files(4);
    file_ranges_three_files(16384);
    kani::cover!(true, "reached");
}

// ---------------------------------------------------------------------------------------------
// C04: where would the extractor create files?  The paths are decided in file_piece_ranges.

fn alpha(b: u8) -> u8 {
    match b % 3 {
        0 => b'/',
        1 => b'.',
        _ => b'a',
    }
}

fn escapes(p: &std::path::Path) -> bool {
    use std::path::Component;
    let mut bad = false;
    for c in p.components() {
        match c {
            Component::Normal(_) | Component::CurDir => {}
            _ => bad = true, // RootDir, ParentDir, Prefix
        }
    }
    bad
}

// @prop C04
// @tier off
// @fn Metainfo::file_piece_ranges (path construction: PathBuf::from(name), dir.join(path))
// @bound multi-file torrent named "t" with two files; the first file's path is any string of exactly 3 characters over the alphabet {'/', '.', 'a'} (27 strings: "../", "/aa", "a/.", "..a", ...), the second is "b"
// @outside longer paths, other characters, hostile torrent names, symlinks already present in the download directory, the extractor's own create_dir_all / File::create calls (3.10)
// @desc every path under which a listed file would be created is relative and contains no parent-directory or root component, and lies under the directory named by the torrent
#[kani::proof]
#[kani::unwind(8)]
fn c04_listed_paths_stay_inside_download_dir() {
    let raw: [u8; 3] = kani::any();
    let bytes = [alpha(raw[0]), alpha(raw[1]), alpha(raw[2])];
    let path = String::from_utf8(bytes.to_vec()).expect("ascii");
    let files = vec![
        File { length: 1, path },
        File { length: 1, path: String::from("b") },
    ];
    let m = mk_metainfo(4, vec![[0u8; HASH_SIZE]], files, "t");
    let r = m.file_piece_ranges();
    assert!(r.len() == 2);
    assert!(!r[0].0.is_absolute(), "a listed path is never absolute");
    assert!(!escapes(&r[0].0), "a listed path has no parent-directory or root component");
    assert!(r[0].0.starts_with("t"), "files of a multi-file torrent are created under the directory named by the torrent");
    kani::cover!(bytes[0] == b'.' && bytes[1] == b'.' && bytes[2] == b'/', "the string ../");
    kani::cover!(bytes[0] == b'/', "a leading slash");
    std::mem::forget(r);
    std::mem::forget(m);
}
