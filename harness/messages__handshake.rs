// Harnesses for src/messages/handshake.rs
use super::*;
use crate::frame::Frame;
use std::io::Cursor;

// @prop C07 C08
// @fn Handshake::new, Handshake::data, Handshake::check, Handshake::from, Frame::parse
// @bound all 20-byte info hashes and all 20-byte peer ids
// @desc handshake bytes == <19>"BitTorrent protocol"<8 zero bytes><info_hash><peer_id>; decoding yields the same hash/id and consumes 68 bytes
#[kani::proof]
#[kani::unwind(24)]
fn c07_handshake_layout_and_roundtrip() {
    let hash: [u8; 20] = kani::any();
    let id: [u8; 20] = kani::any();
    let d = Handshake::new(&hash, &id).data();
    assert!(d.len() == 68, "68 bytes");
    assert!(d[0] == 19, "pstrlen");
    let proto = b"BitTorrent protocol";
    let k: usize = kani::any();
    kani::assume(k < 19);
    assert!(d[1 + k] == proto[k], "protocol string");
    let z: usize = kani::any();
    kani::assume(z < 8);
    assert!(d[20 + z] == 0, "reserved bytes zero");
    let j: usize = kani::any();
    kani::assume(j < 20);
    assert!(d[28 + j] == hash[j], "info hash at 28..48");
    assert!(d[48 + j] == id[j], "peer id at 48..68");
    let mut crs = Cursor::new(&d[..]);
    match Frame::parse(&mut crs) {
        Ok(Frame::Handshake(h)) => {
            assert!(h.info_hash[j] == hash[j] && h.peer_id[j] == id[j], "decoded hash and id equal");
            assert!(h.peer_id()[j] == id[j]);
            assert!(crs.position() == 68, "consumes exactly 68 bytes");
            kani::cover!(hash[0] == 0xff && id[19] == 0, "arbitrary bytes");
        }
        _ => panic!("handshake bytes did not decode to Handshake"),
    }
}

// @prop C08
// @fn Handshake::validate
// @bound all received (hash, id), all expected hashes, expected id absent or any 20 bytes
// @desc validate is Ok exactly when the info hash equals ours and (no id is expected or the id equals the expected one); anything else is an error
#[kani::proof]
#[kani::unwind(24)]
fn c08_handshake_validate_spec() {
    let h = Handshake {
        info_hash: kani::any(),
        peer_id: kani::any(),
    };
    let our_hash: [u8; 20] = kani::any();
    let expect_id: Option<[u8; 20]> = if kani::any() { Some(kani::any()) } else { None };
    let res = h.validate(&our_hash, &expect_id);
    let mut hash_eq = true;
    let mut id_eq = true;
    for k in 0..20 {
        if h.info_hash[k] != our_hash[k] {
            hash_eq = false;
        }
        if let Some(e) = &expect_id {
            if h.peer_id[k] != e[k] {
                id_eq = false;
            }
        }
    }
    kani::cover!(res.is_ok() && expect_id.is_some(), "accepted with expected id");
    kani::cover!(res.is_ok() && expect_id.is_none(), "accepted without expected id");
    match res {
        Ok(()) => assert!(hash_eq && id_eq, "accepted only when hash and expected id match"),
        Err(_) => assert!(!(hash_eq && id_eq), "a handshake of the same torrent with the expected id is accepted"),
    }
}

// @prop C08 C06
// @fn Handshake::check, Frame::parse
// @bound all 68-byte buffers whose byte 4 is 'T' (the dispatch byte) and every delivered prefix length 5..=68
// @desc a buffer is decoded as a handshake exactly when pstrlen = 19, bytes 1..20 spell the protocol string and all 68 bytes arrived; a wrong protocol string is InvalidProtocolId, a short buffer Incomplete
#[kani::proof]
#[kani::unwind(24)]
fn c08_handshake_check_spec() {
    let mut buf: [u8; 68] = kani::any();
    buf[4] = b'T';
    let n: usize = kani::any();
    kani::assume(n >= 5 && n <= 68);
    let proto = b"BitTorrent protocol";
    let mut proto_ok = true;
    for k in 0..19 {
        if buf[1 + k] != proto[k] {
            proto_ok = false;
        }
    }
    let mut crs = Cursor::new(&buf[..n]);
    let res = Frame::parse(&mut crs);
    kani::cover!(res.is_ok(), "a handshake is accepted");
    match res {
        Ok(Frame::Handshake(_)) => {
            assert!(buf[0] == 19 && proto_ok && n == 68, "accepted only for the BEP3 handshake");
            assert!(crs.position() == 68);
        }
        Ok(Frame::KeepAlive(_)) => assert!(buf[0] == 0 && buf[1] == 0 && buf[2] == 0 && buf[3] == 0, "keep-alive only for a zero length prefix"),
        Ok(_) => panic!("dispatch byte T never decodes to another message"),
        Err(Error::Incomplete(_)) => assert!(buf[0] == 19 && n < 68, "Incomplete only while bytes are missing"),
        Err(Error::InvalidProtocolId) => assert!(buf[0] != 19 || !proto_ok, "InvalidProtocolId only for a wrong protocol id"),
        Err(_) => panic!("unexpected error kind"),
    }
}
