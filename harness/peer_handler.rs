// Harnesses for src/peer_handler.rs (connection task logic)
use super::*;
use crate::connection::verif_kani::mk_conn;
use tokio::model::run_ready;
use tokio::net::StreamHandle;
use std_model::HashMap;

pub(crate) struct Rig {
    pub h: PeerHandler,
    pub peer_rx: mpsc::Receiver<PeerCmd>,
    pub broad_tx: broadcast::Sender<BroadCmd>,
    pub sock: StreamHandle,
}

/// A PeerHandler wired to model channels and a scripted socket (nothing to read, not closed).
pub(crate) fn mk_rig(pieces_num: usize, peer_id: Option<[u8; PEER_ID_SIZE]>) -> Rig {
    let (peer_tx, peer_rx) = mpsc::channel(8);
    let (broad_tx, broad_rx) = broadcast::channel(8);
    let (stream, sock) = TcpStream::scripted(Vec::new(), false);
    let h = PeerHandler {
        connection: mk_conn("p", Some(stream), 32),
        own_id: [7u8; PEER_ID_SIZE],
        peer_id,
        info_hash: [9u8; HASH_SIZE],
        pieces_num,
        piece_tx: None,
        piece_rx: None,
        peer_state: State {
            choked: true,
            interested: false,
            keep_alive: 0,
        },
        stats: Stats::new(),
        msg_buff: vec![],
        peer_ch: peer_tx,
        broad_ch: broad_rx,
    };
    Rig { h, peer_rx, broad_tx, sock }
}

fn left_tiles<const MAXBLOCKS: usize>() {
    let len: usize = kani::any();
    kani::assume(len <= MAXBLOCKS * PIECE_BLOCK_SIZE + (PIECE_BLOCK_SIZE - 1));
    let blocks = PieceRx::left(len);
    let expected_blocks = (len + PIECE_BLOCK_SIZE - 1) / PIECE_BLOCK_SIZE;
    assert!(blocks.len() == expected_blocks, "ceil(len / 16 KiB) blocks");
    let mut next = 0usize;
    let mut i = 0;
    while i < blocks.len() {
        let (b, l) = blocks[i];
        assert!(b == next, "blocks start at 0 and are contiguous (no gap, no overlap)");
        assert!(l >= 1 && l <= PIECE_BLOCK_SIZE, "each block is 1..=16 KiB");
        if i + 1 < blocks.len() {
            assert!(l == PIECE_BLOCK_SIZE, "only the last block may be short");
        }
        next = b + l;
        i += 1;
    }
    assert!(next == len, "the blocks cover the piece length exactly");
    kani::cover!(blocks.len() == MAXBLOCKS + 1 && len % PIECE_BLOCK_SIZE != 0, "largest piece with a remainder block");
    kani::cover!(blocks.len() >= 2 && len % PIECE_BLOCK_SIZE == 0, "whole number of blocks");
    kani::cover!(len < PIECE_BLOCK_SIZE && len > 0, "piece shorter than one block");
}

// @prop C10
// @fn PieceRx::left
// @bound every piece length 0..=3*16384+16383 (up to 4 blocks)
// @outside pieces of more than 4 (quick) / 17 (thorough: 256 KiB + remainder) blocks
// @desc the block list starts at 0, is contiguous, every block is 1..=16384 bytes, only the last may be short, and the blocks sum to the piece length
#[kani::proof]
#[kani::unwind(7)]
fn c10_left_tiles_piece_4_blocks() {
    left_tiles::<3>();
}

// @prop C10
// @tier thorough
// @fn PieceRx::left
// @bound every piece length 0..=16*16384+16383 (up to 17 blocks; BEP3's default 256 KiB piece is 16)
// @desc as c10_left_tiles_piece_4_blocks up to 17 blocks
#[kani::proof]
#[kani::unwind(20)]
fn c10_left_tiles_piece_17_blocks() {
    left_tiles::<16>();
}

fn any_piece_rx(piece_index: usize, nreq: usize) -> PieceRx {
    let mut requested = VecDeque::new();
    let mut k = 0;
    while k < nreq {
        let b: usize = kani::any();
        let l: usize = kani::any();
        requested.push_back((b, l));
        k += 1;
    }
    PieceRx {
        piece_index,
        hash: [0; HASH_SIZE],
        buff: vec![],
        requested,
        left: VecDeque::new(),
    }
}

// @prop C01 C10
// @fn PeerHandler::is_piece_requested, Piece::validate
// @bound 0..=3 outstanding requests with arbitrary (begin, length) in usize^2, any assigned piece index or none, any Piece message with index/begin in u32 and a block of 0..=4 bytes
// @outside more than 3 outstanding requests (rdest pipelines 2)
// @desc a block is accepted exactly when a piece is assigned, the block names that piece, and (begin, byte count) equals one outstanding request: corrupt-length, duplicated, overlapping, unrequested, truncated and mis-indexed blocks are all rejected
#[kani::proof]
#[kani::unwind(8)]
fn c01_block_accepted_iff_outstanding_request() {
    let mut rig = mk_rig(4, None);
    let assigned: bool = kani::any();
    let idx: usize = kani::any();
    let nreq: usize = kani::any();
    kani::assume(nreq <= 3);
    // concrete request count per path keeps VecDeque sizes concrete
    let nreq = if nreq == 0 { 0 } else if nreq == 1 { 1 } else if nreq == 2 { 2 } else { 3 };
    if assigned {
        rig.h.piece_rx = Some(any_piece_rx(idx, nreq));
    }
    let blen: usize = kani::any();
    kani::assume(blen <= 4);
    let bytes: [u8; 4] = kani::any();
    let pi: u32 = kani::any();
    let pb: u32 = kani::any();
    let piece = Piece::new(pi as usize, pb as usize, bytes[..blen].to_vec());
    let accepted = rig.h.is_piece_requested(&piece);
    let mut spec = false;
    if let Some(rx) = &rig.h.piece_rx {
        if rx.piece_index == pi as usize {
            let mut k = 0;
            while k < rx.requested.len() {
                let (b, l) = rx.requested[k];
                if b == pb as usize && l == blen {
                    spec = true;
                }
                k += 1;
            }
        }
    }
    assert!(accepted == spec, "accepted <=> (index, begin, length) equals an outstanding request of the assigned piece");
    kani::cover!(accepted, "accepting path");
    kani::cover!(!accepted && assigned && idx == pi as usize && nreq == 3, "right piece, no matching request");
    std::mem::forget(rig);
}

fn sha1_of(data: &[u8]) -> [u8; HASH_SIZE] {
    let mut hasher = sha1_smol::Sha1::new();
    hasher.update(data);
    hasher.digest().bytes()
}

fn verify_hash_for(data: &[u8]) {
    let mut rig = mk_rig(1, None);
    let expected: [u8; HASH_SIZE] = kani::any();
    rig.h.piece_rx = Some(PieceRx {
        piece_index: 0,
        hash: expected,
        buff: data.to_vec(),
        requested: VecDeque::new(),
        left: VecDeque::new(),
    });
    let real = sha1_of(data);
    let mut equal = true;
    let mut k = 0;
    while k < HASH_SIZE {
        if real[k] != expected[k] {
            equal = false;
        }
        k += 1;
    }
    match rig.h.verify_piece_hash() {
        Ok(()) => assert!(equal, "accepted only if the expected hash is the SHA-1 of the assembled data"),
        Err(Error::PieceHashMismatch) => assert!(!equal, "rejected only on a real mismatch"),
        Err(_) => panic!("unexpected error"),
    }
    kani::cover!(equal, "matching hash exists");
    std::mem::forget(rig);
}

// @prop C01
// @fn PeerHandler::verify_piece_hash, sha1_smol::Sha1
// @bound concrete assembled buffers of 0, 1, 55, 56 and 64 bytes (SHA-1 padding boundaries), expected hash fully symbolic (2^160 values)
// @outside symbolic piece contents beyond 4 bytes (thorough), SHA-1 collisions; sha1_smol itself is trusted
// @desc verify_piece_hash returns Ok exactly when the torrent's hash for the piece equals the SHA-1 of the assembled buffer, PieceHashMismatch otherwise; without an assigned piece it is an error
#[kani::proof]
#[kani::unwind(90)]
fn c01_verify_hash_exact_concrete_buffers() {
    verify_hash_for(&[]);
    verify_hash_for(&[0x61]);
    verify_hash_for(&[0x5a; 55]);
    verify_hash_for(&[0x5a; 56]);
    verify_hash_for(&[0xa5; 64]);
    let rig = mk_rig(1, None);
    assert!(rig.h.verify_piece_hash().is_err(), "no assigned piece => error");
    std::mem::forget(rig);
}

// @prop C20
// @fn PeerHandler::timeout_keep_alive, Connection::send_msg, KeepAlive::data
// @bound every value of the silence counter (u32), socket healthy or failing
// @desc at the limit (2 silent intervals already counted) the keep-alive timer ends the connection with KeepAliveTimeout and writes nothing; below the limit exactly one 4-byte keep-alive (00 00 00 00) is written and the counter grows by one
#[kani::proof]
#[kani::unwind(8)]
fn c20_keep_alive_tick_step() {
    let mut rig = mk_rig(1, None);
    let k: u32 = kani::any();
    kani::assume(k <= KEEP_ALIVE_LIMIT);
    rig.h.peer_state.keep_alive = k;
    let res = run_ready(rig.h.timeout_keep_alive()).expect("never blocks");
    let sink = rig.sock.sink();
    if k == KEEP_ALIVE_LIMIT {
        assert!(res.is_err(), "third silent tick closes the connection");
        assert!(sink.len() == 0, "nothing is sent when closing");
        kani::cover!(true, "timeout path");
    } else {
        assert!(res.is_ok());
        assert!(sink.len() == 4 && sink[0] == 0 && sink[1] == 0 && sink[2] == 0 && sink[3] == 0, "exactly one keep-alive is emitted");
        assert!(rig.h.peer_state.keep_alive == k + 1, "one more silent interval counted");
        kani::cover!(k == 1, "second tick");
    }
    std::mem::forget(res);
    std::mem::forget(rig);
}

// @prop C11 C14
// @fn PeerHandler::handle_manager_cmd, Connection::send_msg
// @bound SendOwnState with the connection's address mapped to choke / unchoke / absent (plus one foreign entry); SendHave{i} for any i while the peer chokes us or not, no piece in flight
// @outside SendHave for the piece this connection is fetching (cancel + PieceCancel round trip: three nested coroutine levels, beyond CBMC's reach here)
// @desc SendOwnState: Some(true) => exactly one Choke, Some(false) => exactly one Unchoke, absent => nothing; SendHave: unchoked => exactly one Have(i) frame, choked => nothing sent and Have(i) appended to the deferred list
#[kani::proof]
#[kani::unwind(8)]
fn c11_c14_manager_cmd_step() {
    let mut rig = mk_rig(4, None);
    let choked: bool = kani::any();
    rig.h.peer_state.choked = choked;
    let which: u8 = kani::any();
    kani::assume(which < 4);
    let idx: u32 = kani::any();
    let cmd = match which {
        0 | 1 | 2 => {
            let mut m: HashMap<String, bool> = HashMap::new();
            m.insert(String::from("q"), kani::any());
            if which < 2 {
                m.insert(String::from("p"), which == 0);
            }
            BroadCmd::SendOwnState { am_choked_map: m }
        }
        _ => BroadCmd::SendHave { piece_index: idx as usize },
    };
    let deferred_before = rig.h.msg_buff.len();
    let res = run_ready(rig.h.handle_manager_cmd(cmd)).expect("never blocks");
    assert!(matches!(res, Ok(true)));
    let sink = rig.sock.sink();
    match which {
        0 => assert!(sink.len() == 5 && sink[3] == 1 && sink[4] == 0, "exactly one Choke"),
        1 => assert!(sink.len() == 5 && sink[3] == 1 && sink[4] == 1, "exactly one Unchoke"),
        2 => assert!(sink.len() == 0, "not addressed: nothing sent"),
        _ => {
            if choked {
                assert!(sink.len() == 0, "held back while the peer chokes us");
                assert!(rig.h.msg_buff.len() == deferred_before + 1, "deferred");
                match &rig.h.msg_buff[deferred_before] {
                    Frame::Have(h) => assert!(h.piece_index() == idx as usize, "the deferred announcement names piece i"),
                    _ => panic!("deferred frame is not a Have"),
                }
            } else {
                assert!(sink.len() == 9 && sink[3] == 5 && sink[4] == 4, "exactly one Have frame");
                assert!(sink[5] == (idx >> 24) as u8 && sink[6] == (idx >> 16) as u8 && sink[7] == (idx >> 8) as u8 && sink[8] == idx as u8, "naming piece i");
                assert!(rig.h.msg_buff.len() == deferred_before);
            }
        }
    }
    kani::cover!(which == 3 && choked, "deferred have");
    kani::cover!(which == 3 && !choked, "immediate have");
    kani::cover!(which == 0, "choke sent");
    std::mem::forget(res);
    std::mem::forget(rig);
}

// @prop C09
// @fn PeerHandler::send_piece, Connection::send_msg, Piece::data
// @bound loaded piece of 8 symbolic bytes, any request (index, begin, length) in u32^3 that Request::validate accepts for it
// @outside pieces longer than 8 bytes
// @desc for a validated request the connection writes exactly one Piece frame with the same index and offset carrying exactly buff[begin..begin+length]; the upload counter grows by length
#[kani::proof]
#[kani::unwind(12)]
fn c09_send_piece_exact_range() {
    let mut rig = mk_rig(4, None);
    let data: [u8; 8] = kani::any();
    let loaded: usize = kani::any();
    kani::assume(loaded < 4);
    rig.h.piece_tx = Some(PieceTx { piece_index: loaded, buff: data.to_vec() });
    let (i, b, l): (u32, u32, u32) = (kani::any(), kani::any(), kani::any());
    let req = Request::new(i as usize, b as usize, l as usize);
    kani::assume(req.validate(loaded, 4, 8).is_ok());
    let res = run_ready(rig.h.send_piece(&req)).expect("never blocks");
    assert!(res.is_ok());
    let sink = rig.sock.sink();
    assert!(sink.len() == 13 + l as usize, "one Piece frame of 13 + length bytes");
    assert!(sink[3] as usize == 9 + l as usize && sink[4] == 7, "length prefix and id");
    assert!(sink[8] as usize == loaded && i as usize == loaded, "same index");
    assert!(sink[12] == b as u8 && sink[11] == 0, "same offset");
    let k: usize = kani::any();
    if k < l as usize {
        assert!(sink[13 + k] == data[b as usize + k], "exactly the requested byte range");
    }
    assert!(rig.h.stats.uploaded[0] == l as usize);
    kani::cover!(l == 8 && b == 0, "whole piece");
    kani::cover!(l == 0, "empty range");
    kani::cover!(b == 5 && l == 3, "tail range");
    std::mem::forget(res);
    std::mem::forget(rig);
}

// @prop C10
// @fn PeerHandler::send_request, Connection::send_msg, Request::data
// @bound any assigned piece index < 2^32 with 0..=2 blocks left (symbolic begin/length < 2^32) and 0..=1 already requested
// @desc send_request moves the first unrequested block to the outstanding list and writes exactly one Request naming the assigned piece and that block; with nothing left (or no piece) it writes nothing
#[kani::proof]
#[kani::unwind(8)]
fn c10_send_request_step() {
    let mut rig = mk_rig(4, None);
    let idx: u32 = kani::any();
    let nleft: u8 = kani::any();
    kani::assume(nleft <= 2);
    let (b0, l0, b1, l1): (u32, u32, u32, u32) = (kani::any(), kani::any(), kani::any(), kani::any());
    let has_piece: bool = kani::any();
    if has_piece {
        let mut left = VecDeque::new();
        if nleft >= 1 {
            left.push_back((b0 as usize, l0 as usize));
        }
        if nleft >= 2 {
            left.push_back((b1 as usize, l1 as usize));
        }
        rig.h.piece_rx = Some(PieceRx {
            piece_index: idx as usize,
            hash: [0; HASH_SIZE],
            buff: vec![],
            requested: VecDeque::new(),
            left,
        });
    }
    let res = run_ready(rig.h.send_request()).expect("never blocks");
    assert!(res.is_ok());
    let sink = rig.sock.sink();
    if has_piece && nleft >= 1 {
        assert!(sink.len() == 17 && sink[3] == 13 && sink[4] == 6, "exactly one Request");
        assert!(sink[5] == (idx >> 24) as u8 && sink[8] == idx as u8, "names the assigned piece");
        assert!(sink[9] == (b0 >> 24) as u8 && sink[12] == b0 as u8 && sink[13] == (l0 >> 24) as u8 && sink[16] == l0 as u8, "first unrequested block");
        let rx = rig.h.piece_rx.as_ref().unwrap();
        assert!(rx.requested.len() == 1 && rx.requested[0] == (b0 as usize, l0 as usize), "now outstanding");
        assert!(rx.left.len() == nleft as usize - 1, "no longer unrequested");
        kani::cover!(nleft == 2, "a block remains");
    } else {
        assert!(sink.len() == 0, "nothing to request => nothing written");
        kani::cover!(has_piece, "piece with no blocks left");
    }
    std::mem::forget(res);
    std::mem::forget(rig);
}
