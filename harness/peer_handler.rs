// Harnesses for src/peer_handler.rs (connection task logic)
use super::*;
use crate::connection::verif_kani::mk_conn;
use tokio::model::run_ready;
use tokio::net::StreamHandle;
use std_model::HashMap;

pub(crate) struct Rig {
    pub h: PeerHandler,
    pub peer_rx: mpsc::Receiver<PeerCmd>,
    pub broad_tx: broadcast::Sender<BroadCmd>,
    pub sock: StreamHandle,
}

/// A PeerHandler wired to model channels and a scripted socket (nothing to read, not closed).
pub(crate) fn mk_rig(pieces_num: usize, peer_id: Option<[u8; PEER_ID_SIZE]>) -> Rig {
    let (peer_tx, peer_rx) = mpsc::channel(8);
    let (broad_tx, broad_rx) = broadcast::channel(8);
    let (stream, sock) = TcpStream::scripted(Vec::new(), false);
    let h = PeerHandler {
        connection: mk_conn("p", Some(stream), 32),
        own_id: [7u8; PEER_ID_SIZE],
        peer_id,
        info_hash: [9u8; HASH_SIZE],
        pieces_num,
        piece_tx: None,
        piece_rx: None,
        peer_state: State {
            choked: true,
            interested: false,
            keep_alive: 0,
        },
        stats: Stats::new(),
        msg_buff: vec![],
        peer_ch: peer_tx,
        broad_ch: broad_rx,
    };
    Rig { h, peer_rx, broad_tx, sock }
}

fn left_tiles<const MAXBLOCKS: usize>() {
    let len: usize = kani::any();
    kani::assume(len <= MAXBLOCKS * PIECE_BLOCK_SIZE + (PIECE_BLOCK_SIZE - 1));
    let blocks = PieceRx::left(len);
    let expected_blocks = (len + PIECE_BLOCK_SIZE - 1) / PIECE_BLOCK_SIZE;
    assert!(blocks.len() == expected_blocks, "ceil(len / 16 KiB) blocks");
    let mut next = 0usize;
    let mut i = 0;
    while i < blocks.len() {
        let (b, l) = blocks[i];
        assert!(b == next, "blocks start at 0 and are contiguous (no gap, no overlap)");
        assert!(l >= 1 && l <= PIECE_BLOCK_SIZE, "each block is 1..=16 KiB");
        if i + 1 < blocks.len() {
            assert!(l == PIECE_BLOCK_SIZE, "only the last block may be short");
        }
        next = b + l;
        i += 1;
    }
    assert!(next == len, "the blocks cover the piece length exactly");
    kani::cover!(blocks.len() == MAXBLOCKS + 1 && len % PIECE_BLOCK_SIZE != 0, "largest piece with a remainder block");
    kani::cover!(blocks.len() >= 2 && len % PIECE_BLOCK_SIZE == 0, "whole number of blocks");
    kani::cover!(len < PIECE_BLOCK_SIZE && len > 0, "piece shorter than one block");
}

// @prop C10
// @fn PieceRx::left
// @bound every piece length 0..=3*16384+16383 (up to 4 blocks)
// @outside pieces of more than 4 (quick) / 17 (thorough: 256 KiB + remainder) blocks
// @desc the block list starts at 0, is contiguous, every block is 1..=16384 bytes, only the last may be short, and the blocks sum to the piece length
#[kani::proof]
#[kani::unwind(7)]
fn c10_left_tiles_piece_4_blocks() {
    left_tiles::<3>();
}

// @prop C10
// @tier thorough
// @fn PieceRx::left
// @bound every piece length 0..=16*16384+16383 (up to 17 blocks; BEP3's default 256 KiB piece is 16)
// @desc as c10_left_tiles_piece_4_blocks up to 17 blocks
#[kani::proof]
#[kani::unwind(20)]
fn c10_left_tiles_piece_17_blocks() {
    left_tiles::<16>();
}

fn any_piece_rx(piece_index: usize, nreq: usize) -> PieceRx {
    let mut requested = VecDeque::new();
    let mut k = 0;
    while k < nreq {
        let b: usize = kani::any();
        let l: usize = kani::any();
        requested.push_back((b, l));
        k += 1;
    }
    PieceRx {
        piece_index,
        hash: [0; HASH_SIZE],
        buff: vec![],
        requested,
        left: VecDeque::new(),
    }
}

// @prop C01 C10
// @fn PeerHandler::is_piece_requested, Piece::validate
// @bound 0..=3 outstanding requests with arbitrary (begin, length) in usize^2, any assigned piece index or none, any Piece message with index/begin in u32 and a block of 0..=4 bytes
// @outside more than 3 outstanding requests (rdest pipelines 2)
// @desc a block is accepted exactly when a piece is assigned, the block names that piece, and (begin, byte count) equals one outstanding request: corrupt-length, duplicated, overlapping, unrequested, truncated and mis-indexed blocks are all rejected
#[kani::proof]
#[kani::unwind(8)]
fn c01_block_accepted_iff_outstanding_request() {
    let mut rig = mk_rig(4, None);
    let assigned: bool = kani::any();
    let idx: usize = kani::any();
    let nreq: usize = kani::any();
    kani::assume(nreq <= 3);
    // concrete request count per path keeps VecDeque sizes concrete
    let nreq = if nreq == 0 { 0 } else if nreq == 1 { 1 } else if nreq == 2 { 2 } else { 3 };
    if assigned {
        rig.h.piece_rx = Some(any_piece_rx(idx, nreq));
    }
    let blen: usize = kani::any();
    kani::assume(blen <= 4);
    let bytes: [u8; 4] = kani::any();
    let pi: u32 = kani::any();
    let pb: u32 = kani::any();
    let piece = Piece::new(pi as usize, pb as usize, bytes[..blen].to_vec());
    let accepted = rig.h.is_piece_requested(&piece);
    let mut spec = false;
    if let Some(rx) = &rig.h.piece_rx {
        if rx.piece_index == pi as usize {
            let mut k = 0;
            while k < rx.requested.len() {
                let (b, l) = rx.requested[k];
                if b == pb as usize && l == blen {
                    spec = true;
                }
                k += 1;
            }
        }
    }
    assert!(accepted == spec, "accepted <=> (index, begin, length) equals an outstanding request of the assigned piece");
    kani::cover!(accepted, "accepting path");
    kani::cover!(!accepted && assigned && idx == pi as usize && nreq == 3, "right piece, no matching request");
    std::mem::forget(rig);
}

fn sha1_of(data: &[u8]) -> [u8; HASH_SIZE] {
    let mut hasher = sha1_smol::Sha1::new();
    hasher.update(data);
    hasher.digest().bytes()
}

fn verify_hash_for(data: &[u8]) {
    let mut rig = mk_rig(1, None);
    let expected: [u8; HASH_SIZE] = kani::any();
    rig.h.piece_rx = Some(PieceRx {
        piece_index: 0,
        hash: expected,
        buff: data.to_vec(),
        requested: VecDeque::new(),
        left: VecDeque::new(),
    });
    let real = sha1_of(data);
    let mut equal = true;
    let mut k = 0;
    while k < HASH_SIZE {
        if real[k] != expected[k] {
            equal = false;
        }
        k += 1;
    }
    match rig.h.verify_piece_hash() {
        Ok(()) => assert!(equal, "accepted only if the expected hash is the SHA-1 of the assembled data"),
        Err(Error::PieceHashMismatch) => assert!(!equal, "rejected only on a real mismatch"),
        Err(_) => panic!("unexpected error"),
    }
    kani::cover!(equal, "matching hash exists");
    std::mem::forget(rig);
}

// @prop C01
// @fn PeerHandler::verify_piece_hash, sha1_smol::Sha1
// @bound concrete assembled buffers of 0 and 1 bytes, expected hash fully symbolic (2^160 values)
// @outside symbolic piece contents; SHA-1 collisions; sha1_smol itself is trusted
// @desc verify_piece_hash returns Ok exactly when the torrent's hash for the piece equals the SHA-1 of the assembled buffer, PieceHashMismatch otherwise; without an assigned piece it is an error
#[kani::proof]
#[kani::unwind(90)]
fn c01_verify_hash_exact_small_buffers() {
    verify_hash_for(&[]);
    verify_hash_for(&[0x61]);
    let rig = mk_rig(1, None);
    assert!(rig.h.verify_piece_hash().is_err(), "no assigned piece => error");
    std::mem::forget(rig);
}

// @prop C01
// @tier thorough
// @fn PeerHandler::verify_piece_hash, sha1_smol::Sha1
// @bound concrete assembled buffers of 55, 56 and 64 bytes (SHA-1 padding boundaries: one block, two blocks), expected hash fully symbolic
// @desc as c01_verify_hash_exact_small_buffers at the SHA-1 padding boundaries
#[kani::proof]
#[kani::unwind(90)]
fn c01_verify_hash_exact_padding_boundaries() {
    verify_hash_for(&[0x5a; 55]);
    verify_hash_for(&[0x5a; 56]);
    verify_hash_for(&[0xa5; 64]);
}

fn keep_alive_tick(k: u32) {
    keep_alive_tick_in(k, false)
}

fn keep_alive_tick_in(k: u32, downloading: bool) {
    let mut rig = mk_rig(1, None);
    if downloading {
        // a piece is assigned and two block requests are outstanding
        let mut requested = VecDeque::with_capacity(4);
        requested.push_back((0usize, 16384usize));
        requested.push_back((16384usize, 16384usize));
        rig.h.piece_rx = Some(PieceRx {
            piece_index: 0,
            hash: [0; HASH_SIZE],
            buff: vec![],
            requested,
            left: VecDeque::with_capacity(4),
        });
    }
    rig.h.peer_state.keep_alive = k;
    let res = run_ready(rig.h.timeout_keep_alive()).expect("never blocks");
    if k == KEEP_ALIVE_LIMIT {
        assert!(res.is_err(), "third silent tick closes the connection");
        assert!(rig.sock.sink_len() == 0, "nothing is sent when closing");
    } else {
        assert!(res.is_ok());
        assert!(rig.sock.sink_len() == 4, "exactly one keep-alive is emitted");
        // (content of what send_msg writes: c07_send_msg_writes_exactly_the_encoding)
        assert!(rig.h.peer_state.keep_alive == k + 1, "one more silent interval counted");
    }
    kani::cover!(true, "reached");
    std::mem::forget(res);
    std::mem::forget(rig);
}

// @prop C20
// @fn PeerHandler::timeout_keep_alive, Connection::send_msg, KeepAlive::data
// @bound silence counter = 0 (first tick after traffic); the counter only ever takes the values 0, 1, 2
// @outside tokio's timer fidelity; Session::kill_peer (awaits the task handle)
// @mem 11
// @desc below the limit exactly one 4-byte keep-alive (00 00 00 00) is written and the counter grows by one
#[kani::proof]
#[kani::unwind(6)]
fn c20_keep_alive_tick_counter_0() {
    keep_alive_tick(0);
}

// @prop C20
// @fn PeerHandler::timeout_keep_alive, Connection::send_msg, KeepAlive::data
// @bound silence counter = 1
// @mem 11
// @desc second silent tick: one keep-alive written, counter 2
#[kani::proof]
#[kani::unwind(6)]
fn c20_keep_alive_tick_counter_1() {
    keep_alive_tick(1);
}

// @prop C20
// @fn PeerHandler::timeout_keep_alive
// @bound silence counter = 2 (the limit)
// @desc third silent tick (within three intervals of 120 s): KeepAliveTimeout ends the connection and nothing is written
#[kani::proof]
#[kani::unwind(6)]
fn c20_keep_alive_tick_counter_2_closes() {
    keep_alive_tick(2);
}

// @prop C20
// @fn PeerHandler::timeout_keep_alive, Connection::send_msg
// @bound silence counter = 0 while a piece is assigned and two block requests are outstanding
// @mem 11
// @desc a keep-alive is emitted at every interval also while block requests are outstanding (position of the silence within the connection's life does not matter)
#[kani::proof]
#[kani::unwind(6)]
fn c20_keep_alive_tick_while_downloading_sends() {
    keep_alive_tick_in(0, true);
}

// @prop C20
// @fn PeerHandler::timeout_keep_alive
// @bound silence counter = 2 while a piece is assigned and two block requests are outstanding
// @desc a peer that falls silent after we sent it block requests is closed at the third silent tick like any other
#[kani::proof]
#[kani::unwind(6)]
fn c20_keep_alive_tick_while_downloading_closes() {
    keep_alive_tick_in(2, true);
}

// ---------------------------------------------------------------------------------------------
// handle_frame along the paths that do not await anything (concrete frame kind): the
// keep-alive bookkeeping and the early rejections.

fn frame_step(kind: u8) {
    let mut rig = mk_rig(4, None);
    let before: u32 = kani::any();
    kani::assume(before <= KEEP_ALIVE_LIMIT);
    rig.h.peer_state.keep_alive = before;
    let frame = match kind {
        0 => Some(Frame::KeepAlive(KeepAlive::new())),
        1 => Some(Frame::Cancel(Cancel::new(kani::any::<u32>() as usize, kani::any::<u32>() as usize, kani::any::<u32>() as usize))),
        // (kinds 2..: the rejected value is concrete, so that only the rejecting path is explored;
        //  with a symbolic value CBMC also walks the accepting path, which awaits the manager)
        2 => Some(Frame::Have(Have::new(4))),
        5 => Some(Frame::Have(Have::new(u32::MAX as usize))),
        3 | 6 => {
            // Handshake of another torrent: hash differs in the first (3) or last (6) byte
            let mut other = [9u8; HASH_SIZE];
            other[if kind == 3 { 0 } else { HASH_SIZE - 1 }] = 8;
            Some(Frame::Handshake(Handshake::new(&other, &kani::any())))
        }
        _ => None,
    };
    let res = run_ready(rig.h.handle_frame(frame)).expect("never blocks");
    match kind {
        0 => {
            assert!(matches!(res, Ok(true)));
            assert!(rig.h.peer_state.keep_alive == before, "a keep-alive does not count as activity");
        }
        1 => {
            assert!(matches!(res, Ok(true)));
            assert!(rig.h.peer_state.keep_alive == 0, "any other message resets the silence counter");
        }
        2 | 5 => {
            assert!(res.is_err(), "an announcement for a piece index outside the torrent ends the connection");
            assert!(rig.h.peer_state.keep_alive == 0);
            assert!(rig.peer_rx.queued() == 0, "and never reaches the manager");
        }
        3 | 6 => {
            assert!(res.is_err(), "a handshake naming a different info-hash ends the connection");
            assert!(rig.sock.sink_len() == 0, "nothing is sent after it");
            assert!(rig.peer_rx.queued() == 0, "and the manager is not asked to serve the peer");
        }
        _ => assert!(res.is_err(), "end of stream ends the connection task"),
    }
    kani::cover!(before == KEEP_ALIVE_LIMIT, "counter at the limit before the frame");
    std::mem::forget(res);
    std::mem::forget(rig);
}

// @prop C20
// @fn PeerHandler::handle_frame (KeepAlive path)
// @bound every counter value 0..=2
// @desc a keep-alive from the peer leaves the silence counter unchanged: only-keep-alive traffic does not keep a connection alive
#[kani::proof]
#[kani::unwind(6)]
fn c20_frame_keep_alive_is_not_activity() {
    frame_step(0);
}

// @prop C20
// @fn PeerHandler::handle_frame (Cancel path)
// @bound every counter value 0..=2, every Cancel (index, begin, length) in u32^3
// @outside the other nine message kinds (their handlers await the manager: nested coroutines, DESIGN 3.8)
// @desc a Cancel (the one non-keep-alive message whose handling awaits nothing) resets the silence counter, so a connection delivering it every interval is never closed for inactivity
#[kani::proof]
#[kani::unwind(6)]
fn c20_frame_cancel_resets_silence_counter() {
    frame_step(1);
}

// @prop C12 C06
// @tier off
// @fn PeerHandler::handle_frame, PeerHandler::handle_have, Have::validate
// @bound Have indices 4 (= pieces_num, first out of range) and u32::MAX; every counter value (all indices: c12_have_validate_spec)
// @desc an out-of-range Have ends the connection before the manager sees it (so the manager never indexes past its piece table)
#[kani::proof]
#[kani::unwind(6)]
fn c12_frame_have_out_of_range_rejected() {
    frame_step(2);
    frame_step(5);
}

// @prop C08
// @tier off
// @fn PeerHandler::handle_frame, PeerHandler::handle_handshake, Handshake::validate
// @bound handshakes whose info-hash differs from ours in the first or in the last byte, every peer id, incoming connection (no expected id)
// @outside hashes differing only in later bytes (all 20 positions are covered by c08_handshake_validate_spec); the valid-handshake path (awaits the manager)
// @desc a handshake naming a different torrent is an error for the connection task: nothing is written to the socket and no command reaches the manager
#[kani::proof]
#[kani::unwind(22)]
fn c08_frame_foreign_handshake_closes_silently() {
    frame_step(3);
    frame_step(6);
}

// @prop C06 C20
// @fn PeerHandler::handle_frame (None)
// @bound the end-of-stream marker
// @desc when the peer closes the stream the connection task ends with an error (ConnectionClosed) instead of lingering
#[kani::proof]
#[kani::unwind(6)]
fn c06_frame_end_of_stream_ends_task() {
    frame_step(4);
}

// ---------------------------------------------------------------------------------------------
// handle_piece along the paths that end before the first send: a block that leaves other
// blocks outstanding (nothing left to request), and a last block whose hash does not match.

fn piece_rig(outstanding_first: bool) -> Rig {
    let mut rig = mk_rig(4, None);
    let mut requested = VecDeque::with_capacity(4);
    if outstanding_first {
        requested.push_back((0usize, 2usize));
    }
    requested.push_back((2usize, 2usize));
    rig.h.piece_rx = Some(PieceRx {
        piece_index: 1,
        hash: kani::any(),
        buff: vec![0; 4],
        requested,
        left: VecDeque::with_capacity(4),
    });
    rig
}

// @prop C10 C01
// @tier off
// @fn PeerHandler::handle_piece, PeerHandler::is_piece_requested, PeerHandler::send_request (nothing left)
// @bound a 4-byte piece with two outstanding 2-byte requests (0,2) and (2,2), nothing unrequested; the peer answers the SECOND request first with any 2 bytes
// @outside real block sizes (16 KiB), more than two outstanding blocks, the paths that go on to send a Request or to store the piece (nested coroutines, DESIGN 3.8)
// @desc an accepted block removes exactly its own request from the outstanding list (answers may come in any order), is copied to its offset, and does not complete the piece while another block is outstanding
#[kani::proof]
#[kani::unwind(6)]
fn c10_block_out_of_order_keeps_other_request() {
    let mut rig = piece_rig(true);
    let data: [u8; 2] = kani::any();
    let piece = Piece::new(1, 2, data.to_vec());
    let res = run_ready(rig.h.handle_piece(&piece)).expect("never blocks: nothing to send");
    assert!(matches!(res, Ok(true)), "the connection goes on");
    let rx = rig.h.piece_rx.as_ref().expect("piece still in progress: one block is outstanding");
    assert!(rx.requested.len() == 1 && rx.requested[0] == (0, 2), "only the answered request is removed");
    assert!(rx.buff[2] == data[0] && rx.buff[3] == data[1] && rx.buff[0] == 0 && rx.buff[1] == 0, "block stored at its offset");
    assert!(rig.h.stats.downloaded[0] == 2);
    assert!(rig.peer_rx.queued() == 0, "no PieceDone while a block is outstanding");
    kani::cover!(data[0] == 0xff, "arbitrary payload");
    std::mem::forget(res);
    std::mem::forget(rig);
}

// @prop C01
// @tier off
// @fn PeerHandler::handle_piece, PeerHandler::verify_piece_hash
// @bound a 4-byte piece whose last outstanding block (2,2) arrives with any 2 bytes; expected hash concrete and different from every SHA-1 of the possible buffers' first byte pattern (hash = 20 zero bytes assumed unequal)
// @assume the expected hash is the all-zero digest, which no 4-byte buffer of the form 00 00 xx yy hashes to (checked by the harness: the verify step must fail)
// @desc when the assembled piece fails the hash, handle_piece returns an error (the connection ends), nothing is written to the piece store and no PieceDone reaches the manager
#[kani::proof]
#[kani::unwind(90)]
fn c01_last_block_with_bad_hash_is_not_stored() {
    let mut rig = piece_rig(false);
    if let Some(rx) = rig.h.piece_rx.as_mut() {
        rx.hash = [0u8; HASH_SIZE];
    }
    fs::reset();
    let data: [u8; 2] = kani::any();
    let piece = Piece::new(1, 2, data.to_vec());
    let res = run_ready(rig.h.handle_piece(&piece)).expect("never blocks: fails before any await");
    assert!(res.is_err(), "a piece that fails the hash ends the connection");
    assert!(fs::store().write_log.len() == 0 && fs::store().files.len() == 0, "nothing is written");
    assert!(rig.peer_rx.queued() == 0, "no PieceDone");
    kani::cover!(true, "reached");
    std::mem::forget(res);
    std::mem::forget(rig);
}

fn piece_rx_new_case(len: usize) {
    let hash: [u8; HASH_SIZE] = kani::any();
    let idx: usize = kani::any();
    let rx = PieceRx::new(&ReqData { piece_index: idx, piece_length: len, piece_hash: hash });
    assert!(rx.piece_index == idx, "the plan is for the assigned piece");
    assert!(rx.buff.len() == len, "assembly buffer of exactly the piece length");
    assert!(rx.requested.len() == 0, "nothing outstanding yet");
    let blocks = (len + PIECE_BLOCK_SIZE - 1) / PIECE_BLOCK_SIZE;
    assert!(rx.left.len() == blocks, "every block still to be requested");
    if blocks > 0 {
        assert!(rx.left[0].0 == 0, "first block starts at 0");
        let last = rx.left[blocks - 1];
        assert!(last.0 + last.1 == len, "last block ends at the piece length");
    }
    let k: usize = kani::any();
    if k < HASH_SIZE {
        assert!(rx.hash[k] == hash[k], "expected hash handed over verbatim");
    }
    std::mem::forget(rx);
}

// @prop C10 C01
// @fn PieceRx::new, PieceRx::left
// @bound piece lengths 0, 1, 16384, 16385 and 2*16384+5 (concrete: the assembly buffer is allocated with the piece length), any piece index, any expected hash
// @desc a new download plan names the assigned piece, has an assembly buffer of exactly the piece length, nothing outstanding, all blocks unrequested from offset 0 to the piece length, and carries the torrent's hash for the later verification
#[kani::proof]
#[kani::unwind(6)]
fn c10_new_piece_plan_matches_assignment() {
    piece_rx_new_case(0);
    piece_rx_new_case(1);
    piece_rx_new_case(16384);
    piece_rx_new_case(16385);
    piece_rx_new_case(2 * 16384 + 5);
    kani::cover!(true, "reached");
}
