// Harnesses for src/extractor.rs
use super::*;
use crate::metainfo::verif_kani::mk_metainfo;
use crate::metainfo::File as TFile;

/// fmt-free stand-in for utils::hash_to_string (upper-case hex), used via #[kani::stub]:
/// `format!("{:02X}")` drags the whole fmt machinery into every path.
pub(crate) fn hash_to_string_nofmt(hash: &[u8; 20]) -> String {
    const HEX: &[u8; 16] = b"0123456789ABCDEF";
    let mut s = String::with_capacity(40);
    macro_rules! put {
        ($($i:literal)*) => { $( s.push(HEX[(hash[$i] >> 4) as usize] as char); s.push(HEX[(hash[$i] & 15) as usize] as char); )* };
    }
    put!(0 1 2 3 4 5 6 7 8 9 10 11 12 13 14 15 16 17 18 19);
    s
}

const PL: usize = 4; // piece length

fn mk_extractor(files: Vec<TFile>, npieces: usize, name: &str) -> Extractor {
    let mut pieces = Vec::new();
    let mut i = 0;
    while i < npieces {
        let mut h = [0u8; 20];
        h[0] = (i + 1) as u8;
        pieces.push(h);
        i += 1;
    }
    let (tx, rx) = mpsc::channel(1);
    std::mem::forget(rx);
    Extractor::new(mk_metainfo(PL as u64, pieces, files, name), tx)
}

fn store_pieces(content: &[u8], npieces: usize) {
    let mut i = 0;
    while i < npieces {
        let mut h = [0u8; 20];
        h[0] = (i + 1) as u8;
        let name = hash_to_string_nofmt(&h) + ".piece";
        let end = if (i + 1) * PL < content.len() { (i + 1) * PL } else { content.len() };
        fs::put(name, content[i * PL..end].to_vec());
        i += 1;
    }
}

/// Two files of lengths (l0, total - l0) over `total` bytes of symbolic content.
fn two_files_case(total: usize, l0: usize) {
    fs::reset();
    let content: [u8; 8] = kani::any();
    let npieces = (total + PL - 1) / PL;
    store_pieces(&content[..total], npieces);
    let files = vec![
        TFile { length: l0 as u64, path: String::from("a") },
        TFile { length: (total - l0) as u64, path: String::from("b") },
    ];
    let ex = mk_extractor(files, npieces, "t");
    let res = ex.extract_files();
    assert!(res.is_ok(), "extraction of a consistent torrent succeeds");
    std::mem::forget(res);
    let a = fs::content("t/a").expect("first file created");
    let b = fs::content("t/b").expect("second file created");
    assert!(a.len() == l0, "first file has exactly its declared length");
    assert!(b.len() == total - l0, "second file has exactly its declared length");
    let k: usize = kani::any();
    if k < l0 {
        assert!(a[k] == content[k], "first file = bytes at its offset in the concatenated content");
    }
    if k < total - l0 {
        assert!(b[k] == content[l0 + k], "second file = bytes at its offset in the concatenated content");
    }
    std::mem::forget(ex);
}

// @prop C03
// @tier off
// @fn Extractor::extract_files, Metainfo::file_piece_ranges, Metainfo::piece_pos, BufReader/BufWriter/seek/read_to_end/read_exact over the in-memory fs
// @bound piece length 4, total 8 bytes (2 pieces) of symbolic content, two files with every split (l0, 8 - l0), l0 in 0..=8: zero-length files, files inside one piece, files ending on and across piece boundaries
// @outside pieces longer than 4 bytes, more than 2 files / 2 pieces (quick); OS errors; real disk
// @assume utils::hash_to_string stubbed by an fmt-free hex encoder (piece file names are not the subject here)
// @desc every listed file is created with exactly its declared length and exactly the bytes found at its offset in the concatenated content
#[kani::proof]
#[kani::unwind(12)]
#[kani::stub(crate::utils::hash_to_string, hash_to_string_nofmt)]
fn c03_extract_two_files_all_splits() {
    let mut l0 = 0;
    while l0 <= 8 {
        two_files_case(8, l0);
        l0 += 1;
    }
}

// @prop C03
// @tier off
// @fn Extractor::extract_files (as above)
// @bound piece length 4, total 7 bytes (short last piece), two files with every split (l0, 7 - l0)
// @desc as c03_extract_two_files_all_splits with a last piece shorter than the piece length
#[kani::proof]
#[kani::unwind(12)]
#[kani::stub(crate::utils::hash_to_string, hash_to_string_nofmt)]
fn c03_extract_two_files_short_last_piece() {
    let mut l0 = 0;
    while l0 <= 7 {
        two_files_case(7, l0);
        l0 += 1;
    }
}
