// Harnesses for src/messages/cancel.rs
use super::*;
use crate::frame::Frame;
use std::io::Cursor;

// @prop C07
// @fn Cancel::new, Cancel::data, Cancel::check, Cancel::from, Frame::parse
// @bound all (index, begin, length) in u32^3
// @desc Cancel bytes == <len=13><id=8><index><begin><length>; decoding yields the same fields and consumes 17 bytes
#[kani::proof]
#[kani::unwind(20)]
fn c07_cancel_layout_and_roundtrip() {
    let i: u32 = kani::any();
    let b: u32 = kani::any();
    let l: u32 = kani::any();
    let d = Cancel::new(i as usize, b as usize, l as usize).data();
    assert!(d.len() == 17 && d[0] == 0 && d[1] == 0 && d[2] == 0 && d[3] == 13 && d[4] == 8, "prefix and id");
    assert!(d[5] == (i >> 24) as u8 && d[6] == (i >> 16) as u8 && d[7] == (i >> 8) as u8 && d[8] == i as u8, "index big endian");
    assert!(d[9] == (b >> 24) as u8 && d[10] == (b >> 16) as u8 && d[11] == (b >> 8) as u8 && d[12] == b as u8, "begin big endian");
    assert!(d[13] == (l >> 24) as u8 && d[14] == (l >> 16) as u8 && d[15] == (l >> 8) as u8 && d[16] == l as u8, "length big endian");
    let mut crs = Cursor::new(&d[..]);
    match Frame::parse(&mut crs) {
        Ok(Frame::Cancel(c)) => {
            assert!(c.piece_index == i && c.block_begin == b && c.block_length == l, "decoded fields equal");
            assert!(crs.position() == 17, "consumes exactly its length");
            kani::cover!(l == u32::MAX, "max length");
        }
        _ => panic!("cancel bytes did not decode to Cancel"),
    }
}
