// Harnesses for src/messages/not_interested.rs
use super::*;
use crate::frame::Frame;
use std::io::Cursor;

// @prop C07
// @fn NotInterested::new, NotInterested::data, NotInterested::check, Frame::parse
// @bound the message has no fields: single concrete encoding; trailing bytes 0..=4 symbolic
// @desc NotInterested bytes == <len=1><id=3>; Frame::parse yields NotInterested and consumes exactly 5 bytes whatever follows
#[kani::proof]
#[kani::unwind(20)]
fn c07_not_interested_layout_and_roundtrip() {
    let d = NotInterested::new().data();
    assert!(d.len() == 5 && d[0] == 0 && d[1] == 0 && d[2] == 0 && d[3] == 1 && d[4] == 3, "BEP3 layout");
    let mut buf = [0u8; 9];
    buf[..5].copy_from_slice(&d);
    let extra: [u8; 4] = kani::any();
    buf[5..].copy_from_slice(&extra);
    let n: usize = kani::any();
    kani::assume(n <= 4);
    let mut crs = Cursor::new(&buf[..5 + n]);
    match Frame::parse(&mut crs) {
        Ok(Frame::NotInterested(_)) => {
            assert!(crs.position() == 5, "consumes exactly its length");
            kani::cover!(n == 4, "with trailing bytes");
        }
        _ => panic!("NotInterested bytes did not decode to NotInterested"),
    }
}
