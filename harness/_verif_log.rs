// Injected as `crate::verif_log` (cfg(kani) only, scratch copy only): every message's
// `Serializer::data()` records which message kind was encoded and up to three of its integer
// fields.  `Connection::send_msg` is the only caller of `data()` in rdest, so the log is the
// sequence of messages handed to the socket.  It exists because *reading back* bytes that
// flowed through Vec copies inside nested coroutines costs CBMC > 28 GB, while plain statics
// are free.
#![allow(static_mut_refs)]

pub const KEEP_ALIVE: u16 = 100;
pub const HANDSHAKE: u16 = 200;

pub static mut N: usize = 0;
pub static mut TAGS: [u16; 8] = [0; 8];
pub static mut ARGS: [[u32; 3]; 8] = [[0; 3]; 8];

pub fn sent(tag: u16, a: u32, b: u32, c: u32) {
    unsafe {
        if N < 8 {
            TAGS[N] = tag;
            ARGS[N] = [a, b, c];
        }
        N += 1;
    }
}

pub fn reset() {
    unsafe {
        N = 0;
    }
}

pub fn count() -> usize {
    unsafe { N }
}

pub fn tag(i: usize) -> u16 {
    unsafe { TAGS[i] }
}

pub fn args(i: usize) -> [u32; 3] {
    unsafe { ARGS[i] }
}
