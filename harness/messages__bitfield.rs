// Harnesses for src/messages/bitfield.rs
use super::*;
use crate::frame::Frame;
use std::io::Cursor;

/// One concrete piece count `n` (allocation sizes stay concrete), every bit vector of that length.
fn bitfield_bits_n<const N: usize>(n: usize) {
    let bits: [bool; N] = kani::any();
    let pieces = bits[..n].to_vec();
    let bf = Bitfield::from_vec(&pieces);
    assert!(bf.pieces_bytes.len() == (n + 7) / 8, "ceil(n/8) bytes");
    let i: usize = kani::any();
    if i < bf.pieces_bytes.len() * 8 {
        let bit = bf.pieces_bytes[i / 8] & (0x80u8 >> (i % 8)) != 0;
        if i < n {
            assert!(bit == pieces[i], "piece i <-> bit (i mod 8) from the MSB of byte i/8");
        } else {
            assert!(!bit, "spare bits are zero");
        }
    }
    // and back
    let back = bf.to_vec(n).expect("own bitfield decodes for the same piece count");
    assert!(back.len() == n);
    if i < n {
        assert!(back[i] == pieces[i], "to_vec inverts from_vec");
    }
}

fn bitfield_bits<const N: usize>() {
    let mut n = 0;
    while n <= N {
        bitfield_bits_n::<N>(n);
        n += 1;
    }
    kani::cover!(n == N + 1, "all piece counts in bound visited");
}

// @prop C07 C11
// @fn Bitfield::from_vec, Bitfield::to_vec
// @bound every piece count 0..=12 and every bit vector of that length
// @outside piece counts above 12 (quick) / 24 (thorough)
// @desc from_vec puts piece i at bit (i mod 8) counted from the MSB of byte i/8, spare bits zero, ceil(n/8) bytes; to_vec inverts it
#[kani::proof]
#[kani::unwind(20)]
fn c07_bitfield_bits_12() {
    bitfield_bits::<12>();
}

// @prop C07 C11
// @tier thorough
// @fn Bitfield::from_vec, Bitfield::to_vec
// @bound every piece count 0..=24 and every bit vector of that length
// @desc as c07_bitfield_bits_12 up to 24 pieces
#[kani::proof]
#[kani::unwind(36)]
fn c07_bitfield_bits_24() {
    bitfield_bits::<24>();
}

// @prop C07
// @fn Bitfield::to_vec, Bitfield::validate
// @bound every payload of 0..=3 symbolic bytes, every pieces_num 0..=30
// @desc to_vec/validate accept exactly payloads of ceil(pieces_num/8) bytes; accepted payloads map bit (i mod 8) from the MSB of byte i/8 to piece i
#[kani::proof]
#[kani::unwind(34)]
fn c07_bitfield_to_vec_spec() {
    let mut len = 0;
    while len <= 3 {
        let bytes: [u8; 3] = kani::any();
        let bf = Bitfield { pieces_bytes: bytes[..len].to_vec() };
        let n: usize = kani::any();
        kani::assume(n <= 30);
        let res = bf.to_vec(n);
        assert!(res.is_ok() == (len == (n + 7) / 8), "wrong byte count rejected");
        assert!(bf.validate(n).is_ok() == res.is_ok(), "validate agrees with to_vec");
        if let Ok(v) = &res {
            assert!(v.len() == n);
            let i: usize = kani::any();
            if i < n {
                assert!(v[i] == (bytes[i / 8] & (0x80u8 >> (i % 8)) != 0), "bit order");
            }
            kani::cover!(n == 24, "three full bytes");
        }
        kani::cover!(res.is_err(), "rejecting path");
        len += 1;
    }
}

// @prop C07
// @fn Bitfield::data, Bitfield::check, Bitfield::from, Frame::parse
// @bound every payload of 0..=3 symbolic bytes
// @desc Bitfield bytes == <len=1+n><id=5><payload>; decoding yields the same payload and consumes 5+n bytes
#[kani::proof]
#[kani::unwind(20)]
fn c07_bitfield_layout_and_roundtrip() {
    let len: usize = kani::any();
    kani::assume(len <= 3);
    let bytes: [u8; 3] = kani::any();
    let bf = Bitfield { pieces_bytes: bytes[..len].to_vec() };
    let d = bf.data();
    assert!(d.len() == 5 + len && d[0] == 0 && d[1] == 0 && d[2] == 0 && d[3] as usize == 1 + len && d[4] == 5, "prefix and id");
    let k: usize = kani::any();
    kani::assume(k < len);
    assert!(d[5 + k] == bytes[k], "payload verbatim");
    let mut crs = Cursor::new(&d[..]);
    match Frame::parse(&mut crs) {
        Ok(Frame::Bitfield(q)) => {
            assert!(q.pieces_bytes.len() == len && q.pieces_bytes[k] == bytes[k], "decoded payload equal");
            assert!(crs.position() as usize == 5 + len, "consumes exactly its length");
            kani::cover!(len == 3, "three payload bytes");
        }
        _ => panic!("bitfield bytes did not decode to Bitfield"),
    }
}
