// Harnesses for src/connection.rs
use super::*;
use crate::frame::verif_kani::{bep3_verdict, Verdict};
use tokio::model::run_ready;

/// Expected outcome of "deliver the next message" on `input`, from the BEP3 reference:
/// complete unknown-id frames are skipped, then the first verdict that is not a skip decides.
#[derive(PartialEq, Clone, Copy)]
enum Expect {
    /// a frame ends at this offset of the input
    FrameEndsAt(usize),
    /// nothing deliverable yet; this many bytes (complete unknown frames) may have been dropped
    Wait(usize),
    WaitOrFatal(usize),
    Fatal(usize),
}

/// One reference step at offset `off`: Ok(final expectation) or Err(new offset after skipping a
/// complete unknown-id frame).
fn expect_step(input: &[u8], off: usize) -> Result<Expect, usize> {
    match bep3_verdict(&input[off..]) {
        Verdict::Frame(k) => Ok(Expect::FrameEndsAt(off + k)),
        Verdict::Unknown(k) => {
            if off + k <= input.len() {
                Err(off + k)
            } else {
                Ok(Expect::Wait(off))
            }
        }
        Verdict::NeedMore => Ok(Expect::Wait(off)),
        Verdict::NeedMoreOrFatal => Ok(Expect::WaitOrFatal(off)),
        Verdict::Fatal => Ok(Expect::Fatal(off)),
    }
}

/// Loop-free (five unrolled steps: up to four skipped unknown-id frames of >= 5 bytes each fit
/// the largest harness bound of 20 bytes).
fn expect_next(input: &[u8]) -> Expect {
    let off = match expect_step(input, 0) {
        Ok(e) => return e,
        Err(o) => o,
    };
    let off = match expect_step(input, off) {
        Ok(e) => return e,
        Err(o) => o,
    };
    let off = match expect_step(input, off) {
        Ok(e) => return e,
        Err(o) => o,
    };
    let off = match expect_step(input, off) {
        Ok(e) => return e,
        Err(o) => o,
    };
    match expect_step(input, off) {
        Ok(e) => e,
        Err(o) => Expect::Wait(o),
    }
}

fn conn_with(bytes: &[u8], socket: Option<TcpStream>) -> Connection {
    let mut buffer = BytesMut::with_capacity(32);
    buffer.extend_from_slice(bytes);
    Connection {
        addr: String::new(),
        socket,
        buffer,
    }
}

fn parse_frame_total<const N: usize>() {
    let buf: [u8; N] = kani::any();
    let n: usize = kani::any();
    kani::assume(n <= N);
    let mut c = conn_with(&buf[..n], None);
    let res = c.parse_frame();
    let left = c.buffer.len();
    assert!(left <= n, "never consumes more than is buffered");
    let consumed = n - left;
    let exp = expect_next(&buf[..n]);
    match &res {
        Ok(Some(_)) => {
            assert!(exp == Expect::FrameEndsAt(consumed), "a delivered frame consumes exactly up to its end");
            kani::cover!(consumed > 5, "frame with payload delivered");
        }
        Ok(None) => match exp {
            Expect::Wait(skipped) => assert!(consumed <= skipped, "while waiting only complete unknown-id frames are dropped"),
            Expect::WaitOrFatal(skipped) => assert!(consumed <= skipped),
            // a complete frame may sit behind a skipped unknown one: recv_frame harnesses
            // check that it is then delivered without reading
            Expect::FrameEndsAt(end) => assert!(consumed > 0 && consumed < end, "a buffered complete frame is withheld only after skipping an unknown-id frame in this call"),
            Expect::Fatal(skipped) => assert!(consumed > 0 && consumed <= skipped, "a malformed frame is only passed over after skipping an unknown-id frame in this call"),
        },
        Err(_) => {
            assert!(matches!(exp, Expect::Fatal(_) | Expect::WaitOrFatal(_)), "errors only for streams that cannot become valid");
            kani::cover!(true, "fatal error path");
        }
    }
    std::mem::forget(c);
}

// @prop C06
// @fn Connection::parse_frame, Frame::parse, BytesMut::advance
// @bound every buffer content of 0..=9 bytes (one unknown-id frame plus a header or a short frame)
// @outside buffers longer than 9 (quick) / 20 (thorough) bytes
// @assume Connection is built literally with a 32-byte BytesMut instead of Connection::new's 64 KiB one (capacity is not observable by parse_frame; the 64 KiB allocation alone costs 700 s of symbolic execution)
// @desc parse_frame never panics (incl. unknown id whose body has not arrived), never consumes more than is buffered, delivers a frame exactly at the reference frame boundary, and errs only on streams the reference calls fatal
#[kani::proof]
#[kani::unwind(3)]
fn c06_parse_frame_total_9() {
    parse_frame_total::<9>();
}

// @prop C06
// @tier thorough
// @fn Connection::parse_frame, Frame::parse, BytesMut::advance
// @bound every buffer content of 0..=20 bytes
// @desc as c06_parse_frame_total_9 up to 20 bytes (several skipped unknown-id frames)
#[kani::proof]
#[kani::unwind(6)]
fn c06_parse_frame_total_20() {
    parse_frame_total::<20>();
}

/// recv_frame on a connection whose socket is absent: whatever is deliverable from the buffer
/// must be returned without touching the socket; only when nothing is deliverable may it go on
/// to the socket (observable here as SocketNotAvailable).
fn recv_delivers_buffered<const N: usize>() {
    let buf: [u8; N] = kani::any();
    let n: usize = kani::any();
    kani::assume(n <= N);
    let mut c = conn_with(&buf[..n], None);
    let got = run_ready(c.recv_frame());
    let consumed = n - c.buffer.len();
    let exp = expect_next(&buf[..n]);
    match &got {
        None => panic!("recv_frame cannot block: there is no socket"),
        Some(Ok(Some(_))) => {
            assert!(exp == Expect::FrameEndsAt(consumed), "delivered frame ends at the reference boundary");
            kani::cover!(consumed > 5, "a frame behind a skipped unknown-id frame, or with payload, is delivered");
        }
        Some(Ok(None)) => panic!("Ok(None) means clean close and is impossible without a socket"),
        Some(Err(Error::SocketNotAvailable)) => {
            // recv_frame decided to read more bytes
            assert!(
                matches!(exp, Expect::Wait(_) | Expect::WaitOrFatal(_)),
                "recv_frame goes to the socket although a complete (or fatally malformed) frame is already buffered"
            );
            match exp {
                Expect::Wait(s) | Expect::WaitOrFatal(s) => assert!(consumed <= s, "only complete unknown-id frames are dropped while waiting"),
                _ => {}
            }
            kani::cover!(consumed > 0, "waiting after skipping an unknown-id frame");
        }
        Some(Err(_)) => {
            assert!(matches!(exp, Expect::Fatal(_) | Expect::WaitOrFatal(_)), "fatal errors only for streams that cannot become valid");
            kani::cover!(true, "malformed stream terminates the connection");
        }
    }
    std::mem::forget(got);
    std::mem::forget(c);
}

// @prop C06
// @fn Connection::recv_frame, Connection::parse_frame, Frame::parse
// @bound every buffered content of 0..=9 bytes, socket absent
// @outside buffers longer than 9 (quick) / 16 (thorough) bytes; the socket read path of recv_frame (EOF, reset, re-segmentation) is not executed symbolically: Kani did not finish recv_frame with a scripted socket even for 6 concrete-length bytes (DESIGN 3.8)
// @desc every complete message already received is delivered by recv_frame without waiting for further bytes, also when it sits behind skipped unknown-id messages; recv_frame turns to the socket only when nothing deliverable is buffered; malformed lengths yield an error
#[kani::proof]
#[kani::unwind(3)]
fn c06_recv_frame_delivers_buffered_9() {
    recv_delivers_buffered::<9>();
}

// @prop C06
// @tier thorough
// @fn Connection::recv_frame, Connection::parse_frame, Frame::parse
// @bound every buffered content of 0..=16 bytes, socket absent
// @desc as c06_recv_frame_delivers_buffered_9 up to 16 bytes (three unknown-id frames + a header)
#[kani::proof]
#[kani::unwind(5)]
fn c06_recv_frame_delivers_buffered_16() {
    recv_delivers_buffered::<16>();
}

/// Build a Connection for other harness modules (fields are private to connection.rs).
pub(crate) fn mk_conn(addr: &str, socket: Option<TcpStream>, cap: usize) -> Connection {
    Connection {
        addr: String::from(addr),
        socket,
        buffer: BytesMut::with_capacity(cap),
    }
}
