// Harnesses for src/messages/choke.rs
use super::*;
use crate::frame::Frame;
use std::io::Cursor;

// @prop C07
// @fn Choke::new, Choke::data, Choke::check, Frame::parse
// @bound the message has no fields: single concrete encoding; trailing bytes 0..=4 symbolic
// @desc Choke bytes == <len=1><id=0>; Frame::parse yields Choke and consumes exactly 5 bytes whatever follows
#[kani::proof]
#[kani::unwind(20)]
fn c07_choke_layout_and_roundtrip() {
    let d = Choke::new().data();
    assert!(d.len() == 5 && d[0] == 0 && d[1] == 0 && d[2] == 0 && d[3] == 1 && d[4] == 0, "BEP3 layout");
    let mut buf = [0u8; 9];
    buf[..5].copy_from_slice(&d);
    let extra: [u8; 4] = kani::any();
    buf[5..].copy_from_slice(&extra);
    let n: usize = kani::any();
    kani::assume(n <= 4);
    let mut crs = Cursor::new(&buf[..5 + n]);
    match Frame::parse(&mut crs) {
        Ok(Frame::Choke(_)) => {
            assert!(crs.position() == 5, "consumes exactly its length");
            kani::cover!(n == 4, "with trailing bytes");
        }
        _ => panic!("Choke bytes did not decode to Choke"),
    }
}
